#!/usr/bin/env python3
"""ir2c: translate (a reachable slice of) an LLVM-14 textual IR module to C for CBMC.

Prototype.  Typed translation: every IR type gets a C typedef; SSA values become C
locals; integers are unsigned fixed-width (wrap-around semantics, signed ops through
casts); phi nodes are parallel copies on edges.
"""
import re, sys, struct, collections, json, os

# ----------------------------------------------------------------------------- lexer
TOK = re.compile(r'''
   (?P<ws>\s+)
 | (?P<cstr>c"(?:[^"\\]|\\[0-9A-Fa-f]{2}|\\\\)*")
 | (?P<qid>[%@$!]"(?:[^"\\]|\\.)*")
 | (?P<id>[%@$][-a-zA-Z$._0-9]+)
 | (?P<meta>![-a-zA-Z$._0-9]*)
 | (?P<attr>\#\d+)
 | (?P<hex>0x[KLMHR]?[0-9A-Fa-f]+)
 | (?P<float>-?\d+\.\d*(?:e[-+]?\d+)?)
 | (?P<int>-?\d+)
 | (?P<dots>\.\.\.)
 | (?P<str>"(?:[^"\\]|\\.)*")
 | (?P<word>[a-zA-Z_][a-zA-Z_0-9.]*)
 | (?P<punct>[()\[\]{}<>,=*:|])
''', re.X)

def lex(s):
    out = []
    pos = 0
    n = len(s)
    while pos < n:
        if s[pos] == ';':
            break
        m = TOK.match(s, pos)
        if not m:
            raise SyntaxError('lex error at %r' % s[pos:pos+40])
        pos = m.end()
        k = m.lastgroup
        if k == 'ws':
            continue
        out.append((k, m.group(k)))
    return out

class P:
    def __init__(self, toks, mod):
        self.t = toks; self.i = 0; self.mod = mod
    def peek(self, o=0):
        j = self.i + o
        return self.t[j] if j < len(self.t) else ('eof', '')
    def next(self):
        x = self.peek(); self.i += 1; return x
    def accept(self, v):
        if self.peek()[1] == v:
            self.i += 1; return True
        return False
    def expect(self, v):
        x = self.next()
        if x[1] != v:
            raise SyntaxError('expected %r got %r in %r' % (v, x, ' '.join(t[1] for t in self.t[max(0,self.i-8):self.i+8])))
    def eof(self):
        return self.i >= len(self.t)

    # ------------------------------------------------------------------ types
    def type(self):
        k, v = self.next()
        if k == 'word':
            if v == 'void': t = ('void',)
            elif re.fullmatch(r'i\d+', v): t = ('int', int(v[1:]))
            elif v == 'float': t = ('float',)
            elif v == 'double': t = ('double',)
            elif v == 'x86_fp80': t = ('x86_fp80',)
            elif v == 'label': t = ('label',)
            elif v == 'metadata': t = ('metadata',)
            elif v == 'opaque': t = ('opaque',)
            elif v == 'ptr': t = ('ptr', ('int', 8))
            else: raise SyntaxError('type? %r' % v)
        elif k in ('id', 'qid') and v[0] == '%':
            t = ('named', unq(v[1:]))
        elif v == '[':
            n = int(self.next()[1]); self.expect('x'); e = self.type(); self.expect(']')
            t = ('array', n, e)
        elif v == '{':
            t = ('struct', tuple(self.typelist('}')), False)
        elif v == '<':
            if self.accept('{'):
                fs = self.typelist('}'); self.expect('>')
                t = ('struct', tuple(fs), True)
            else:
                n = int(self.next()[1]); self.expect('x'); e = self.type(); self.expect('>')
                t = ('vector', n, e)
        else:
            raise SyntaxError('type? %r' % (v,))
        while True:
            if self.accept('*'):
                t = ('ptr', t)
            elif self.peek()[1] == '(':
                self.next()
                ps = []; va = False
                while not self.accept(')'):
                    if self.accept('...'): va = True
                    else: ps.append(self.type())
                    self.accept(',')
                t = ('func', t, tuple(ps), va)
            elif self.peek()[1] == 'addrspace':
                self.next(); self.expect('('); self.next(); self.expect(')')
            else:
                break
        return t
    def typelist(self, close):
        fs = []
        while not self.accept(close):
            fs.append(self.type()); self.accept(',')
        return fs

    # ------------------------------------------------------------------ values
    PATTRS = {'noundef','nonnull','nocapture','readonly','readnone','writeonly','noalias','zeroext','signext','returned',
              'inreg','immarg','nofree','nest','swiftself','swifterror','inrange','noext'}
    def skip_pattrs(self):
        """skip parameter/return attributes; returns dict of interesting ones"""
        info = {}
        while True:
            k, v = self.peek()
            if k == 'word' and v in self.PATTRS:
                self.next()
            elif k == 'word' and v in ('align',):
                self.next()
                if self.accept('('): self.next(); self.expect(')')
                else: self.next()
            elif k == 'word' and v in ('dereferenceable', 'dereferenceable_or_null'):
                self.next(); self.expect('('); self.next(); self.expect(')')
            elif k == 'word' and v in ('byval', 'sret', 'byref', 'inalloca', 'preallocated', 'elementtype'):
                self.next(); self.expect('('); t = self.type(); self.expect(')')
                info[v] = t
            else:
                return info

    def value(self, ty):
        """parse a value of (already parsed) type ty -> ('kind', ...)"""
        k, v = self.next()
        if k in ('id', 'qid'):
            if v[0] == '%': return ('local', unq(v[1:]))
            if v[0] == '@': return ('global', unq(v[1:]))
        if k == 'int': return ('int', int(v))
        if k == 'meta': return ('undef',)
        if k == 'float': return ('fp', float(v))
        if k == 'hex':
            h = v[2:]
            if h[0] in 'KLMHR': return ('fp', 0.0)
            return ('fp', struct.unpack('>d', bytes.fromhex(h.rjust(16, '0')))[0])
        if k == 'cstr':
            return ('bytes', cbytes(v[2:-1]))
        if k == 'word':
            if v == 'true': return ('int', 1)
            if v == 'false': return ('int', 0)
            if v == 'null': return ('null',)
            if v in ('undef', 'poison'): return ('undef',)
            if v == 'zeroinitializer': return ('zero',)
            if v in ('getelementptr',):
                inb = self.accept('inbounds')
                self.expect('(')
                bt = self.type(); self.expect(',')
                pt = self.type(); pv = self.value(pt)
                idx = []
                while self.accept(','):
                    self.accept('inrange')
                    it = self.type(); iv = self.value(it); idx.append((it, iv))
                self.expect(')')
                return ('cgep', bt, pt, pv, idx)
            if v in ('bitcast', 'ptrtoint', 'inttoptr', 'trunc', 'zext', 'sext', 'addrspacecast'):
                self.expect('(')
                ft = self.type(); fv = self.value(ft); self.expect('to'); tt = self.type(); self.expect(')')
                return ('ccast', v, ft, fv, tt)
            if v in ('add', 'sub', 'mul', 'and', 'or', 'xor', 'shl', 'lshr', 'ashr'):
                while self.peek()[1] in ('nuw', 'nsw', 'exact'): self.next()
                self.expect('(')
                at = self.type(); av = self.value(at); self.expect(',')
                bt = self.type(); bv = self.value(bt); self.expect(')')
                return ('cbin', v, at, av, bv)
            if v in ('icmp',):
                pred = self.next()[1]
                self.expect('(')
                at = self.type(); av = self.value(at); self.expect(',')
                bt = self.type(); bv = self.value(bt); self.expect(')')
                return ('cicmp', pred, at, av, bv)
            if v == 'select':
                self.expect('(')
                ct = self.type(); cv = self.value(ct); self.expect(',')
                at = self.type(); av = self.value(at); self.expect(',')
                bt = self.type(); bv = self.value(bt); self.expect(')')
                return ('cselect', cv, at, av, bv)
            if v == 'blockaddress':
                raise SyntaxError('blockaddress')
        if v == '{' or v == '[' or v == '<':
            close = {'{': '}', '[': ']', '<': '>'}[v]
            packed = False
            if v == '<' and self.accept('{'):
                close = '}'; packed = True
            elems = []
            while not self.accept(close):
                et = self.type(); ev = self.value(et); elems.append((et, ev)); self.accept(',')
            if packed: self.expect('>')
            return ('agg', elems)
        raise SyntaxError('value? %r %r' % (k, v))

def unq(s):
    if s.startswith('"'):
        s = s[1:-1]
        s = re.sub(r'\\([0-9A-Fa-f]{2})', lambda m: chr(int(m.group(1), 16)), s)
    return s

def cbytes(s):
    out = bytearray(); i = 0
    while i < len(s):
        if s[i] == '\\':
            if s[i+1] == '\\': out.append(92); i += 2
            else: out.append(int(s[i+1:i+3], 16)); i += 3
        else:
            out.append(ord(s[i])); i += 1
    return bytes(out)

# ----------------------------------------------------------------------------- module
class Func:
    pass

class Module:
    def __init__(self, text):
        self.types = {}        # name -> type tuple (struct) or ('opaque',)
        self.globals = collections.OrderedDict()  # name -> dict
        self.funcs = collections.OrderedDict()    # name -> Func (defined)
        self.decls = {}        # name -> (ret, params, vararg)
        self.parse(text)

    def parse(self, text):
        lines = text.split('\n')
        i = 0; n = len(lines)
        while i < n:
            ln = lines[i]
            if not ln or ln[0] == ';':
                i += 1; continue
            if ln.startswith('%') and ' = type ' in ln:
                toks = lex(ln); p = P(toks, self)
                name = unq(p.next()[1][1:]); p.expect('='); p.expect('type')
                self.types[name] = p.type()
                i += 1; continue
            if ln.startswith('@'):
                self.parse_global(ln); i += 1; continue
            if ln.startswith('define '):
                body = []
                hdr = ln
                i += 1
                while lines[i] != '}':
                    body.append(lines[i]); i += 1
                i += 1
                self.parse_func(hdr, body); continue
            if ln.startswith('declare '):
                self.parse_decl(ln); i += 1; continue
            i += 1

    LINK = {'private','internal','available_externally','linkonce','weak','common','appending','extern_weak','linkonce_odr','weak_odr','external',
            'dso_local','dso_preemptable','default','hidden','protected','unnamed_addr','local_unnamed_addr','thread_local','externally_initialized',
            'dllimport','dllexport'}
    def parse_global(self, ln):
        toks = lex(ln); p = P(toks, self)
        name = unq(p.next()[1][1:]); p.expect('=')
        external = False
        while p.peek()[0] == 'word' and p.peek()[1] in self.LINK:
            w = p.next()[1]
            if w in ('external', 'extern_weak', 'available_externally'): external = external or w != 'available_externally'
            if w == 'thread_local' and p.accept('('):
                p.next(); p.expect(')')
        if p.peek()[1] == 'alias' or p.peek()[1] == 'ifunc':
            p.next()
            t = p.type(); p.expect(','); t2 = p.type(); v = p.value(t2)
            self.globals[name] = dict(alias=v, type=t, const=True, init=None, external=False)
            return
        kind = p.next()[1]
        assert kind in ('global', 'constant'), ln[:80]
        t = p.type()
        init = None
        if not external and not p.eof() and p.peek()[1] != ',':
            init = p.value(t)
        self.globals[name] = dict(type=t, const=(kind == 'constant'), init=init, external=external)

    FNATTR_WORDS = {'unnamed_addr', 'local_unnamed_addr', 'align', 'personality', 'comdat', 'section', 'gc', 'prefix', 'prologue', 'noinline', 'nounwind', 'mustprogress', 'uwtable', 'optnone'}
    def parse_sig(self, p):
        while p.peek()[0] == 'word' and (p.peek()[1] in self.LINK or p.peek()[1] in ('fastcc', 'ccc', 'coldcc', 'cc')):
            p.next()
        p.skip_pattrs()
        ret = p.type()
        name = unq(p.next()[1][1:])
        p.expect('(')
        params = []; va = False
        while not p.accept(')'):
            if p.accept('...'): va = True
            else:
                t = p.type(); info = p.skip_pattrs()
                pn = None
                if p.peek()[0] in ('id', 'qid') and p.peek()[1][0] == '%':
                    pn = unq(p.next()[1][1:])
                params.append((t, pn, info))
            p.accept(',')
        return ret, name, params, va

    def parse_decl(self, ln):
        p = P(lex(ln), self); p.expect('declare')
        ret, name, params, va = self.parse_sig(p)
        self.decls[name] = (ret, [t for t, _, _ in params], va)

    def parse_func(self, hdr, body):
        p = P(lex(hdr), self); p.expect('define')
        ret, name, params, va = self.parse_sig(p)
        f = Func(); f.name = name; f.ret = ret; f.va = va
        # unnamed params get sequential numbers
        cnt = 0; ps = []
        for t, pn, info in params:
            if pn is None:
                pn = str(cnt); cnt += 1
            elif re.fullmatch(r'\d+', pn):
                cnt = int(pn) + 1
            ps.append((t, pn, info))
        f.params = ps
        # join continuation lines
        joined = []
        insw = False
        for ln in body:
            if not ln.strip() or ln.lstrip().startswith(';'): continue
            if insw:
                joined[-1] += ' ' + ln.strip()
                if ln.strip() == ']': insw = False
                continue
            if ln.startswith('   ') and joined:      # continuation (invoke 'to label', landingpad clauses)
                joined[-1] += ' ' + ln.strip(); continue
            joined.append(ln)
            s = ln.strip()
            if s.startswith('switch ') and not s.endswith(']'): insw = True
        blocks = collections.OrderedDict()
        cur = None
        first = True
        for ln in joined:
            m = re.match(r'^([-a-zA-Z$._0-9]+|"[^"]*"):', ln)
            if m:
                cur = unq(m.group(1)); blocks[cur] = []; continue
            if cur is None:
                cur = str(cnt)   # implicit entry label
                blocks[cur] = []
            blocks[cur].append(ln.strip())
        f.blocks = blocks
        f.entry = next(iter(blocks))
        self.funcs[name] = f

# ----------------------------------------------------------------------------- emitter
def san(name):
    s = re.sub(r'[^A-Za-z0-9_]', '_', name)
    if s != name:
        s = s + '_x%x' % (hash_name(name) & 0xffff)
    return s
def hash_name(n):
    h = 5381
    for c in n: h = (h * 33 + ord(c)) & 0xffffffff
    return h

LIBC = {'strlen','strcmp','strncmp','strcpy','strncpy','memcmp','memcpy','memmove','memset','strcat','malloc','free','realloc','calloc','printf','fprintf','puts','putchar','exit','abort','sqrt','pow','floor','ceil','log','log2','exp2','exp','fabs','fputc','fwrite','fflush','bcmp','memchr','strchr','qsort','rand','srand','getrusage','gettimeofday','fputs','sprintf','snprintf'}
INTRIN_SKIP = ('llvm.lifetime.', 'llvm.dbg.', 'llvm.assume', 'llvm.experimental.noalias', 'llvm.invariant.', 'llvm.donothing', 'llvm.var.annotation', 'llvm.stackprotector')

class Emitter:
    def __init__(self, mod, stubs):
        self.m = mod
        self.stubs = set(stubs)      # external names defined by the stub library (or to be treated as external even if defined)
        self.tnames = {}             # structural type -> C typedef name
        self.tdefs = []              # (name, kind, payload) in creation order
        self.fnptr = {}
        self.out = []
        self.need_funcs = []         # worklist
        self.seen_funcs = set()
        self.seen_globals = []
        self.seen_gset = set()
        self.ext_funcs = {}          # name -> (ret, params, va)
        self.unmodelled = set()
        self.defined = None          # names defined by the environment model (None: do not generate traps)
        self.blocking = set()        # E2: names of blocking primitives (hand-written step functions)
        self.mayblock = set()        # E2: defined functions that can reach one
        self.addr_taken = set()
        self.frames = collections.OrderedDict()

    # ---- types
    def resolve(self, t):
        return t
    def cty(self, t):
        k = t[0]
        if k == 'void': return 'void'
        if k == 'int':
            b = t[1]
            if b <= 8: return 'uint8_t'
            if b <= 16: return 'uint16_t'
            if b <= 32: return 'uint32_t'
            if b <= 64: return 'uint64_t'
            return 'unsigned __int128'
        if k == 'float': return 'float'
        if k == 'double': return 'double'
        if k == 'x86_fp80': return 'long double'
        if k == 'ptr':
            e = t[1]
            if e[0] == 'func': return self.fnty(e)
            if e[0] == 'void': return 'uint8_t*'
            return self.cty(e) + '*'
        if k == 'named':
            nm = 'S_' + san(t[1])
            if t not in self.tnames:
                self.tnames[t] = nm
                self.tdefs.append((nm, 'named', t[1]))
            return nm
        if k in ('array', 'struct', 'vector'):
            if t not in self.tnames:
                nm = ('A%d_' if k != 'struct' else 'L%d_') % len(self.tnames)
                self.tnames[t] = nm
                # make sure element types are registered first
                if k == 'struct':
                    for e in t[1]: self.cty(e)
                else: self.cty(t[2])
                self.tdefs.append((nm, k, t))
            return self.tnames[t]
        if k == 'func':
            return self.fnty(t)
        if k == 'opaque': return 'void'
        raise NotImplementedError(t)
    def fnty(self, ft):
        if ft not in self.fnptr:
            nm = 'FN%d_' % len(self.fnptr)
            self.fnptr[ft] = nm
            self.cty(ft[1]) if ft[1][0] != 'void' else None
            for a in ft[2]: self.cty(a)
        return self.fnptr[ft]

    def bits(self, t):
        return t[1] if t[0] == 'int' else None
    def mask(self, t, e):
        b = t[1]
        if b in (8, 16, 32, 64, 128): return '((%s)(%s))' % (self.cty(t), e)
        return '((%s)((%s) & %s))' % (self.cty(t), e, hex((1 << b) - 1) + 'ull')
    def sty(self, t):
        b = t[1]
        if b <= 8: return 'int8_t'
        if b <= 16: return 'int16_t'
        if b <= 32: return 'int32_t'
        if b <= 64: return 'int64_t'
        return '__int128'
    def signed(self, t, e):
        """C expression of e (unsigned repr, iN) as signed value of the container type"""
        b = t[1]
        if b in (8, 16, 32, 64, 128): return '((%s)(%s))' % (self.sty(t), e)
        cb = 8 if b < 8 else 16 if b < 16 else 32 if b < 32 else 64 if b < 64 else 128
        sh = cb - b
        return '(((%s)((%s)(%s) << %d)) >> %d)' % (self.sty(t), self.cty(t), e, sh, sh)

    # ---- values
    def val(self, t, v, fn=None):
        k = v[0]
        if k == 'local': return fn.lname(v[1])
        if k == 'global':
            nm = self.unalias(v[1])
            self.ref_global(nm)
            if nm in self.m.funcs or nm in self.m.decls:
                return '((%s)&%s)' % (self.cty(t), san(nm))
            return '((%s)&%s)' % (self.cty(t), 'G_' + san(nm))
        if k == 'int':
            if t[0] == 'int':
                b = t[1]; x = v[1] & ((1 << b) - 1)
                if b > 64: return '((unsigned __int128)%dull)' % x if x < (1 << 64) else '(((unsigned __int128)%dull << 64) | %dull)' % (x >> 64, x & (2**64 - 1))
                return '((%s)%dull)' % (self.cty(t), x)
            if t[0] in ('float', 'double'): return '((%s)%d)' % (self.cty(t), v[1])
            raise NotImplementedError((t, v))
        if k == 'fp': return '((%s)%r)' % (self.cty(t), v[1])
        if k == 'null': return '((%s)0)' % self.cty(t)
        if k in ('undef', 'zero'):
            if t[0] in ('int', 'ptr', 'float', 'double'): return '((%s)0)' % self.cty(t)
            return '((%s){0})' % self.cty(t)
        if k == 'ccast':
            _, op, ft, fv, tt = v
            return self.cast(op, ft, self.val(ft, fv, fn), tt)
        if k == 'cgep':
            _, bt, pt, pv, idx = v
            return self.gep(bt, pt, self.val(pt, pv, fn), [(it, self.val(it, iv, fn)) for it, iv in idx])[0]
        if k == 'cbin':
            _, op, at, av, bv = v
            return self.binop(op, at, self.val(at, av, fn), self.val(at, bv, fn))
        if k == 'cicmp':
            _, pred, at, av, bv = v
            return self.icmp(pred, at, self.val(at, av, fn), self.val(at, bv, fn))
        if k == 'cselect':
            _, cv, at, av, bv = v
            return '(%s ? %s : %s)' % (self.val(('int', 1), cv, fn), self.val(at, av, fn), self.val(at, bv, fn))
        if k in ('agg', 'bytes'):
            return '((%s)%s)' % (self.cty(t), self.init(t, v))
        raise NotImplementedError(v)

    def init(self, t, v):
        """C initializer (brace form) for constant v of type t"""
        k = v[0]
        if k == 'zero' or k == 'undef':
            return '{0}' if t[0] in ('array', 'struct', 'vector', 'named') else '0'
        if k == 'bytes':
            return '{{' + ','.join(str(b) for b in v[1]) + '}}'
        if k == 'agg':
            tt = t
            if tt[0] == 'named': tt = self.m.types[tt[1]]
            if tt[0] == 'struct':
                if not v[1]: return '{0}'
                return '{' + ','.join(self.init(et, ev) for et, ev in v[1]) + '}'
            return '{{' + ','.join(self.init(et, ev) for et, ev in v[1]) + '}}'
        return self.val(t, v)

    def cast(self, op, ft, e, tt):
        if op in ('bitcast', 'addrspacecast'):
            if ft[0] == 'ptr' or tt[0] == 'ptr': return '((%s)(%s))' % (self.cty(tt), e)
            if ft == tt: return e
            raise NotImplementedError(('bitcast', ft, tt))
        if op == 'ptrtoint': return self.mask(tt, '(uintptr_t)(%s)' % e)
        if op == 'inttoptr': return '((%s)(uintptr_t)(%s))' % (self.cty(tt), e)
        if op == 'trunc': return self.mask(tt, e)
        if op == 'zext': return '((%s)(%s))' % (self.cty(tt), e)
        if op == 'sext': return self.mask(tt, '(%s)%s' % (self.sty(tt), self.signed(ft, e)))
        if op in ('uitofp',): return '((%s)(%s))' % (self.cty(tt), e)
        if op in ('sitofp',): return '((%s)%s)' % (self.cty(tt), self.signed(ft, e))
        if op in ('fptoui',): return self.mask(tt, '(%s)(%s)' % (self.cty(tt), e))
        if op in ('fptosi',): return self.mask(tt, '(%s)(%s)(%s)' % (self.cty(tt), self.sty(tt), e))
        if op in ('fpext', 'fptrunc'): return '((%s)(%s))' % (self.cty(tt), e)
        raise NotImplementedError(op)

    def binop(self, op, t, a, b):
        if t[0] in ('float', 'double'):
            o = {'fadd': '+', 'fsub': '-', 'fmul': '*', 'fdiv': '/'}[op]
            return '(%s %s %s)' % (a, o, b)
        ct = self.cty(t)
        wide = 'uint32_t' if t[1] < 32 else ct     # avoid int promotion surprises
        if op in ('add', 'sub', 'mul', 'and', 'or', 'xor'):
            o = {'add': '+', 'sub': '-', 'mul': '*', 'and': '&', 'or': '|', 'xor': '^'}[op]
            return self.mask(t, '(%s)%s %s (%s)%s' % (wide, a, o, wide, b))
        # shift by >= width is LLVM poison (legal when speculated under a select): refine to an arbitrary value
        W_ = t[1]
        if op == 'shl': return '((%s) >= %d ? (%s)ir2c_poison() : %s)' % (b, W_, ct, self.mask(t, '(%s)%s << (%s)' % (wide, a, b)))
        if op == 'lshr': return '((%s) >= %d ? (%s)ir2c_poison() : %s)' % (b, W_, ct, self.mask(t, '(%s)%s >> (%s)' % (wide, a, b)))
        if op == 'ashr': return '((%s) >= %d ? (%s)ir2c_poison() : %s)' % (b, W_, ct, self.mask(t, '(%s)(%s >> (%s))' % (ct, self.signed(t, a), b)))
        if op == 'udiv': return self.mask(t, '(%s)%s / (%s)%s' % (wide, a, wide, b))
        if op == 'urem': return self.mask(t, '(%s)%s %% (%s)%s' % (wide, a, wide, b))
        if op == 'sdiv': return self.mask(t, '(%s)(%s / %s)' % (ct, self.signed(t, a), self.signed(t, b)))
        if op == 'srem': return self.mask(t, '(%s)(%s %% %s)' % (ct, self.signed(t, a), self.signed(t, b)))
        raise NotImplementedError(op)

    def icmp(self, pred, t, a, b):
        if t[0] == 'ptr':
            o = {'eq': '==', 'ne': '!=', 'ult': '<', 'ule': '<=', 'ugt': '>', 'uge': '>=', 'slt': '<', 'sle': '<=', 'sgt': '>', 'sge': '>='}[pred]
            if pred in ('eq', 'ne'): return '((uint8_t)(%s %s %s))' % (a, o, b)
            return '((uint8_t)((uintptr_t)%s %s (uintptr_t)%s))' % (a, o, b)
        if pred in ('eq', 'ne', 'ult', 'ule', 'ugt', 'uge'):
            o = {'eq': '==', 'ne': '!=', 'ult': '<', 'ule': '<=', 'ugt': '>', 'uge': '>='}[pred]
            return '((uint8_t)(%s %s %s))' % (a, o, b)
        o = {'slt': '<', 'sle': '<=', 'sgt': '>', 'sge': '>='}[pred]
        return '((uint8_t)(%s %s %s))' % (self.signed(t, a), o, self.signed(t, b))

    def sidx(self, t, e):
        """index expression as signed 64-bit"""
        return '(int64_t)%s' % self.signed(t, e)

    def gep(self, bt, pt, p, idx):
        # returns (expr, resulting pointee type)
        cur = bt
        e = '(%s)' % p
        it, iv = idx[0]
        if not (iv.startswith('((') and re.fullmatch(r'\(\(uint\d+_t\)0ull\)', iv)):
            e = '(%s + %s)' % (e, self.sidx(it, iv))
        for it, iv in idx[1:]:
            st = cur
            if st[0] == 'named': st = self.m.types[st[1]]
            if st[0] == 'struct':
                m = re.fullmatch(r'\(\(uint\d+_t\)(\d+)ull\)', iv)
                k = int(m.group(1))
                e = '(&(%s)->f%d)' % (e, k)
                cur = st[1][k]
            elif st[0] in ('array', 'vector'):
                e = '(&(%s)->a[%s])' % (e, self.sidx(it, iv))
                cur = st[2]
            else:
                raise NotImplementedError(('gep into', st))
        return e, cur

    # ---- reachability bookkeeping
    def unalias(self, nm):
        seen = 0
        while nm in self.m.globals and 'alias' in self.m.globals[nm] and seen < 8:
            v = self.m.globals[nm]['alias']
            while v[0] == 'ccast': v = v[3]
            assert v[0] == 'global', v
            nm = v[1]; seen += 1
        return nm
    def ref_global(self, nm):
        nm = self.unalias(nm)
        if nm in self.m.funcs and nm not in self.stubs:
            if nm not in self.seen_funcs:
                self.seen_funcs.add(nm); self.need_funcs.append(nm)
        elif nm in self.m.funcs or nm in self.m.decls:
            if nm not in self.ext_funcs:
                if nm in self.m.funcs:
                    f = self.m.funcs[nm]; self.ext_funcs[nm] = (f.ret, [t for t, _, _ in f.params], f.va)
                else:
                    self.ext_funcs[nm] = self.m.decls[nm]
        elif nm in self.m.globals:
            if nm not in self.seen_gset:
                self.seen_gset.add(nm); self.seen_globals.append(nm)
        else:
            raise KeyError('unknown global ' + nm)

    # ---- virtual dispatch.  An indirect call whose callee is `load (gep (load vptr), k)` becomes a call to a
    # per-(slot, signature) dispatcher that compares the function pointer against the k-th entry of every vtable the
    # slice installs (vtables of abstract classes excluded) and calls that function directly.  Vtables are emitted
    # with only the slots some dispatcher uses, so a class drags in only the virtual methods that can be called.
    def is_vtable(self, g):
        return g.startswith('_ZTV') and self.m.globals[g].get('init') is not None and self.m.globals[g]['init'][0] == 'agg'
    def vtable_entries(self, g):
        """[(subtable index, entry index, function name or None)]"""
        out = []
        init = self.m.globals[g]['init']
        for si, (et, ev) in enumerate(init[1]):
            if ev[0] != 'agg': continue
            for idx, (tt, vv) in enumerate(ev[1]):
                v = vv
                while v[0] == 'ccast': v = v[3]
                nm = None
                if v[0] == 'global':
                    nm = self.unalias(v[1])
                    if not (nm in self.m.funcs or nm in self.m.decls): nm = None
                out.append((si, idx, nm))
        return out
    def vtable_abstract(self, g):
        return any(nm == '__cxa_pure_virtual' for si, idx, nm in self.vtable_entries(g))
    def dispatcher(self, k, ft):
        key = (k, ft)
        if key not in self.dispatchers:
            self.dispatchers[key] = 'ir2c_vd%d_s%d' % (len(self.dispatchers), k)
            self.used_slots.add(k)
            self.fnty(ft)
        return self.dispatchers[key]
    def dispatch_candidates(self, k, ft):
        cands = []
        rt, ps = ft[1], ft[2]
        for g in self.seen_vtables:
            if self.vtable_abstract(g): continue
            for si, idx, nm in self.vtable_entries(g):
                if idx - 2 != k or nm is None or nm == '__cxa_pure_virtual': continue
                if nm in self.m.funcs: sig = (self.m.funcs[nm].ret, [t for t, _, _ in self.m.funcs[nm].params])
                else: sig = (self.m.decls[nm][0], self.m.decls[nm][1])
                if len(sig[1]) != len(ps) or (sig[0] != rt and not (sig[0][0] == 'ptr' and rt[0] == 'ptr')): continue
                if any(x != y and not (x[0] == 'ptr' and y[0] == 'ptr') for x, y in list(zip(sig[1], ps))[1:]): continue
                if (nm, sig) not in [(c[0], c[1]) for c in cands]: cands.append((nm, sig))
        return cands
    def emit_dispatcher(self, k, ft, name):
        rt, ps = ft[1], ft[2]
        args = ', '.join(['%s f_' % self.fnty(ft)] + ['%s a%d_' % (self.cty(t), i) for i, t in enumerate(ps)])
        body = []
        for nm, sig in self.dispatch_candidates(k, ft):
            ext = not (nm in self.m.funcs and nm not in self.stubs)
            av = []
            for i, t in enumerate(ps):
                if t[0] == 'ptr': av.append('((%s)a%d_)' % ('uint8_t*' if ext else self.cty(sig[1][i]), i))
                else: av.append('a%d_' % i)
            call = '%s(%s)' % (san(nm), ', '.join(av))
            if rt[0] == 'void': body.append('if (f_ == (%s)&%s) { %s; return; }' % (self.fnty(ft), san(nm), call))
            else: body.append('if (f_ == (%s)&%s) return %s%s;' % (self.fnty(ft), san(nm), '(%s)' % self.cty(rt) if rt[0] == 'ptr' else '', call))
        body.append('__CPROVER_assert(0, "VERIF model: virtual call target is not a method of any class the slice instantiates");')
        body.append('__CPROVER_assume(0);')
        if rt[0] != 'void': body.append('return (%s)%s;' % (self.cty(rt), '{0}' if rt[0] in ('struct', 'array', 'named') else '0'))
        return 'static %s %s(%s) {\n  %s\n}\n' % (self.cty(rt), name, args, '\n  '.join(body))
    def emit_vtable(self, g):
        gd = self.m.globals[g]
        ct = self.cty(gd['type'])
        init = gd['init']
        subs = []
        for et, ev in init[1]:
            ents = []
            for idx, (tt, vv) in enumerate(ev[1]):
                v = vv
                while v[0] == 'ccast': v = v[3]
                keep = idx >= 2 and v[0] == 'global' and (self.all_slots or (idx - 2) in self.used_slots)
                ents.append(self.init(tt, vv) if keep else '0')
            subs.append('{{' + ','.join(ents) + '}}')
        return '%s G_%s = {%s};' % (ct, san(g), ','.join(subs))

    # ---- E2 support
    def frame_field(self, nm):
        return 'f_' + san(nm)
    def sig_compatible(self, nm, ft):
        f = self.m.funcs[nm]
        ps = [t for t, _, _ in f.params]
        if len(ps) != len(ft[2]): return False
        return f.ret == ft[1] and all(a == b for a, b in zip(ps, ft[2]))      # exact IR types (typed pointers)
    def compute_mayblock(self):
        """functions that can reach a blocking primitive (direct calls; indirect calls resolved over address-taken
        functions of exactly the call's IR function type)"""
        calls = {}; icalls = {}
        fe = FuncEmitter(self, None)
        for nm, f in self.m.funcs.items():
            cs = set(); ics = []
            for b, ins in f.blocks.items():
                for ln in ins:
                    if re.search(r'\b(call|invoke)\b', ln):
                        try:
                            x = fe.parse_ins(ln)
                        except Exception:
                            x = None
                        if x and x[0] == 'call':
                            _, res, rt, fty, callee, args, dest = x
                            if callee[0] == 'global': cs.add(self.unalias(callee[1]))
                            else: ics.append(('func', rt, tuple(a_[0] for a_ in args), False) if fty is None else fty)
                            for at, av, info in args: self.note_addr(av)
                            continue
                    for g in re.findall(r'@("[^"]+"|[-a-zA-Z$._0-9]+)', ln):
                        g = self.unalias(unq(g))
                        if g in self.m.funcs: self.addr_taken.add(g)
            calls[nm] = cs; icalls[nm] = ics
        for g, gd in self.m.globals.items():       # vtables / constant tables
            if gd.get('init') is not None: self.note_addr(gd['init'])
        mb = set()
        changed = True
        while changed:
            changed = False
            for nm in self.m.funcs:
                if nm in mb or nm in self.stubs: continue
                hit = any(c in self.blocking or c in mb for c in calls[nm])
                if not hit:
                    hit = any(t in mb and self.sig_compatible(t, ft) for ft in icalls[nm] for t in self.addr_taken)
                if hit: mb.add(nm); changed = True
        self.mayblock = mb
    def note_addr(self, v):
        if not isinstance(v, tuple) or not v: return
        if v[0] == 'global':
            n = self.unalias(v[1])
            if n in self.m.funcs: self.addr_taken.add(n)
            return
        for y in v:
            if isinstance(y, tuple): self.note_addr(y)
            elif isinstance(y, list):
                for z in y:
                    if isinstance(z, tuple): self.note_addr(z)

    # ---- driver
    def run(self, entries):
        self.dispatchers = {}; self.used_slots = set(); self.seen_vtables = []; self.all_slots = bool(os.environ.get('IR2C_NO_DEVIRT'))
        for e in entries: self.ref_global(e)
        bodies = []
        gdefs = {}
        gi = 0
        done_disp = {}
        while True:
            progress = False
            while self.need_funcs:
                nm = self.need_funcs.pop(); progress = True
                if nm in self.mayblock:
                    bodies.append(ResumableFuncEmitter(self, self.m.funcs[nm]).emit())
                else:
                    bodies.append(FuncEmitter(self, self.m.funcs[nm]).emit())
            while gi < len(self.seen_globals):
                g = self.seen_globals[gi]; gi += 1; progress = True
                if self.is_vtable(g): self.seen_vtables.append(g)
                else: gdefs[g] = self.emit_global(g)
            # vtable slots in use pull in their methods; dispatchers pull in their candidates
            n0 = len(self.seen_funcs) + len(self.ext_funcs) + len(self.seen_globals)
            for g in self.seen_vtables:
                for si, idx, nm in self.vtable_entries(g):
                    if nm and idx >= 2 and (self.all_slots or (idx - 2) in self.used_slots): self.ref_global(nm)
            for (k, ft) in list(self.dispatchers):
                for nm, sig in self.dispatch_candidates(k, ft): self.ref_global(nm)
            if len(self.seen_funcs) + len(self.ext_funcs) + len(self.seen_globals) != n0: progress = True
            if not progress: break
        for g in self.seen_vtables: gdefs[g] = self.emit_vtable(g)
        disp_bodies = [self.emit_dispatcher(k, ft, name) for (k, ft), name in self.dispatchers.items()]
        o = []
        o.append('/* generated by ir2c.py */')
        o.append('#include <stdint.h>\n#include <stddef.h>\n#include <string.h>\n#include <stdlib.h>')
        o.append('#include "ir2c_rt.h"')
        # prototypes first (may register more types)
        o2 = []
        traps = []
        self.trapped = []
        for nm, (ret, ps, va) in self.ext_funcs.items():
            if nm.startswith('llvm.') or nm.startswith('__CPROVER_') or nm in LIBC: continue
            o2.append(self.proto(nm, ret, ps, va, erased=True) + ';')
            if self.defined is not None and nm not in self.defined:
                # external that the environment model does not define: reaching it is reported, never ignored
                self.trapped.append(nm)
                args = 'void' if not ps and not va else ', '.join('%s a%d_' % (self.ety(t), i) for i, t in enumerate(ps))
                if va: args = ''
                rv = '' if ret[0] == 'void' else ' return (%s)%s;' % (self.ety(ret), '{0}' if ret[0] in ('struct', 'array', 'named', 'vector') else '0')
                traps.append('%s %s(%s) { __CPROVER_assert(0, "VERIF model: unencoded external %s reached"); __CPROVER_assume(0);%s }' %
                             (self.ety(ret), san(nm), args, nm[:80], rv))
        addr_stubs = []
        for nm in self.seen_funcs:
            f = self.m.funcs[nm]
            o2.append(self.proto(nm, f.ret, [t for t, _, _ in f.params], f.va) + ';')
            if nm in self.mayblock:
                rv = '' if f.ret[0] == 'void' else ' return (%s)%s;' % (self.cty(f.ret), '{0}' if f.ret[0] in ('struct', 'array', 'named', 'vector') else '0')
                addr_stubs.append('%s { __CPROVER_assert(0, "VERIF model: resumable function %s entered directly"); __CPROVER_assume(0);%s }' %
                                  (self.proto(nm, f.ret, [t for t, _, _ in f.params], f.va, ['p%d_' % i for i in range(len(f.params))]), nm[:60], rv))
        for g in self.seen_globals:
            gd = self.m.globals[g]
            if 'alias' in gd: continue
            t_ = gd['type']
            if (gd['external'] or gd['init'] is None) and t_[0] == 'named' and self.m.types.get(t_[1], ('opaque',))[0] == 'opaque':
                o2.append('extern uint8_t G_%s[64];' % san(g))
            else:
                o2.append('extern %s G_%s;' % (self.cty(gd['type']), san(g)))
        # close the set of types
        def body_of(entry):
            nm, k, payload = entry
            if k == 'named':
                return self.m.types.get(payload, ('opaque',))
            return payload
        i = 0
        while i < len(self.tdefs):
            t = body_of(self.tdefs[i]); i += 1
            if t[0] == 'struct':
                for e in t[1]: self.cty(e)
            elif t[0] in ('array', 'vector'): self.cty(t[2])
        for nm, k, payload in self.tdefs:
            o.append('typedef struct %s %s;' % (nm, nm))
        for ft, nm in list(self.fnptr.items()):
            ps = ', '.join(self.cty(a) for a in ft[2])
            if ft[3]: ps = (ps + ', ...') if ps else ''
            elif not ps: ps = 'void'
            o.append('typedef %s (*%s)(%s);' % (self.cty(ft[1]), nm, ps))
        emitted = set()
        byname = {e[0]: e for e in self.tdefs}
        def emit_t(entry):
            nm, k, payload = entry
            if nm in emitted: return
            emitted.add(nm)
            t = body_of(entry)
            if t[0] == 'opaque': return
            elems = t[1] if t[0] == 'struct' else (t[2],)
            for e in elems:
                if e[0] in ('array', 'vector', 'struct', 'named'):
                    cn = self.cty(e)
                    if cn in byname: emit_t(byname[cn])
            if t[0] == 'struct':
                fs = ' '.join('%s f%d;' % (self.cty(e), i) for i, e in enumerate(t[1])) or 'char empty_;'
                attr = ' __attribute__((packed))' if t[2] else ''
                o.append('struct %s { %s }%s;' % (nm, fs, attr))
            else:
                o.append('struct %s { %s a[%d]; };' % (nm, self.cty(t[2]), t[1] if t[1] else 1))
        for e in list(self.tdefs): emit_t(e)
        o += o2
        for t, fn in getattr(self, 'newfns', {}).items():
            ct = self.cty(t)
            cap = 'IR2C_MAXBYTES' if t == ('int', 8) else 'IR2C_MAXELEMS'
            o.append('static uint8_t *%s(uint64_t nb) { uint64_t c = (nb + sizeof(%s) - 1) / sizeof(%s); IR2C_NEW_CASES(%s, c, %s) __CPROVER_assert(0, "allocation larger than the modelled bound"); __CPROVER_assume(0); return 0; }' % (fn, ct, ct, ct, cap))
        for g in self.seen_globals:
            o.append(gdefs[g])
        o += disp_bodies
        o += traps
        if self.frames or self.blocking:
            o.append('#include "e2_rt.h"')
            emitted_f = set()
            def emit_frame(nm):
                if nm in emitted_f or nm not in self.frames: return
                emitted_f.add(nm)
                for sub in self.frames[nm][1]: emit_frame(sub)
                o.append(self.frames[nm][0])
            for nm in list(self.frames): emit_frame(nm)
            for nm in self.frames: o.append('static int %s_step(struct FR_%s *fr);' % (san(nm), san(nm)))
            o.extend(addr_stubs)
        o += bodies
        return '\n'.join(o) + '\n'

    def newfn(self, t):
        if not hasattr(self, 'newfns'): self.newfns = {}
        if t not in self.newfns:
            self.newfns[t] = 'ir2c_new_%d' % len(self.newfns)
            self.cty(t)
        return self.newfns[t]
    def ety(self, t):
        """erased C type used at the boundary to external (stub) functions"""
        if t[0] == 'ptr': return 'uint8_t*'
        return self.cty(t)
    def proto(self, nm, ret, ps, va, names=None, erased=False):
        args = []
        ty = self.ety if erased else self.cty
        if erased:
            if va: va = False; args = None
        if args is None:
            return '%s %s()' % (ty(ret), san(nm))
        for i, t in enumerate(ps):
            args.append(ty(t) + (' ' + names[i] if names else ''))
        if erased:
            return '%s %s(%s)' % (ty(ret), san(nm), ', '.join(args) or 'void')
        if va: args.append('...')
        return '%s %s(%s)' % (self.cty(ret), san(nm), ', '.join(args) or 'void')

    def emit_global(self, g):
        gd = self.m.globals[g]
        if 'alias' in gd:
            return '/* alias %s */' % g
        ct = self.cty(gd['type'])
        if gd['external'] or gd['init'] is None:
            # external object (std::cerr, __dso_handle, ...): a zero-filled object of its IR type;
            # never inspected by modelled code (logging is stubbed)
            t = gd['type']
            if t[0] == 'named' and self.m.types.get(t[1], ('opaque',))[0] == 'opaque':
                return 'uint8_t G_%s[64];' % san(g)
            return '%s G_%s;' % (ct, san(g))
        return '%s G_%s = %s;' % (ct, san(g), self.init(gd['type'], gd['init']))

class FuncEmitter:
    def __init__(self, em, f):
        self.em = em; self.f = f
        self.names = {}
        self.decls = collections.OrderedDict()
        self.body = []
    def lname(self, n):
        if n not in self.names:
            self.names[n] = 'v_' + re.sub(r'[^A-Za-z0-9_]', '_', n) + ('' if re.fullmatch(r'[A-Za-z0-9_]+', n) else '_%x' % (hash_name(n) & 0xfff))
        return self.names[n]
    def lab(self, n):
        return 'L_' + re.sub(r'[^A-Za-z0-9_]', '_', n) + ('' if re.fullmatch(r'[A-Za-z0-9_]+', n) else '_%x' % (hash_name(n) & 0xfff))
    def decl(self, n, t):
        self.decls[self.lname(n)] = self.em.cty(t)
    def emit(self):
        em = self.em; f = self.f
        # pass 1: collect phis per block
        self.phis = {}
        parsed = {}
        for b, ins in f.blocks.items():
            pl = []
            for s in ins:
                pl.append(self.parse_ins(s))
            parsed[b] = pl
            self.phis[b] = [x for x in pl if x[0] == 'phi']
        # typed-allocation peephole: result of operator new / malloc that is bitcast to exactly one T*
        allocs = {}
        for b, pl in parsed.items():
            for x in pl:
                if x[0] == 'call' and x[1] is not None and x[4][0] == 'global' and x[4][1] in ('_Znwm', '_Znam', 'malloc'):
                    allocs[x[1]] = set()
        for b, pl in parsed.items():
            for x in pl:
                if x[0] == 'cast' and x[2] == 'bitcast' and x[4][0] == 'local' and x[4][1] in allocs:
                    tt = x[5]
                    if tt[0] == 'ptr' and tt[1] != ('int', 8) and tt[1][0] not in ('func', 'opaque') and not allocs[x[4][1]]:
                        allocs[x[4][1]].add(tt[1])      # first bitcast = static type of the new-expression
        # second chance: `store i8* %r, i8** (bitcast T** %field to i8**)` -- instcombine's spelling of `field = new T[n]`
        bc = {}
        for b, pl in parsed.items():
            for x in pl:
                if x[0] == 'cast' and x[2] == 'bitcast' and x[1] is not None: bc[x[1]] = (x[3], x[5])
        for b, pl in parsed.items():
            for x in pl:
                if x[0] == 'store' and x[2][0] == 'local' and x[2][1] in allocs and not allocs[x[2][1]] and x[4][0] == 'local' and x[4][1] in bc:
                    ft, tt = bc[x[4][1]]
                    if tt == ('ptr', ('ptr', ('int', 8))) and ft[0] == 'ptr' and ft[1][0] == 'ptr':
                        et = ft[1][1]
                        if et != ('int', 8) and et[0] not in ('func', 'opaque', 'void'):
                            allocs[x[2][1]].add(et)
        self.alloc_hint = {k: next(iter(v)) for k, v in allocs.items() if len(v) == 1}
        self.defs = {}
        self.alloca_names = set()
        for b, pl in parsed.items():
            for x in pl:
                if x[0] in ('load', 'gep', 'cast', 'phi', 'select') and x[1] is not None: self.defs[x[1]] = x
                if x[0] == 'alloca': self.alloca_names.add(x[1])
        self.castdef = {}
        for b, pl in parsed.items():
            for x in pl:
                if x[0] == 'cast' and x[2] == 'bitcast' and x[4][0] == 'local': self.castdef[x[1]] = (x[3], x[4])
        out = []
        # blocks are emitted in reverse post-order of the CFG: every backward goto is then a genuine loop back edge
        # (clang's layout sometimes places an inner loop after its outer loop's latch; cbmc would see the jump back
        # into the outer body as a second, overlapping loop and mis-count unwindings)
        succ = {}
        for b, pl in parsed.items():
            t = pl[-1] if pl else ('unreachable',)
            ss = []
            if t[0] == 'br': ss = [t[1]]
            elif t[0] == 'cbr': ss = [t[2], t[3]]
            elif t[0] == 'switch': ss = [t[3]] + [cl for cv, cl in t[4]]
            elif t[0] == 'call' and t[6]: ss = [t[6]]
            # visited in reverse so that the FIRST successor (clang: the loop body / then-branch) is laid out right
            # after its predecessor and loop bodies stay contiguous
            succ[b] = [x_ for x_ in reversed(ss) if x_ in parsed]
        order = []; seen = set()
        stack = [(f.entry, iter(succ.get(f.entry, [])))]; seen.add(f.entry)
        while stack:
            node, it_ = stack[-1]
            adv = False
            for nx in it_:
                if nx not in seen:
                    seen.add(nx); stack.append((nx, iter(succ.get(nx, [])))); adv = True; break
            if not adv:
                order.append(node); stack.pop()
        order.reverse()
        order += [b for b in parsed if b not in seen]       # unreachable blocks (landing pads) last
        if not os.environ.get('IR2C_RPO'):
            order = list(parsed)                            # default: clang's own block layout (measured: RPO layouts made
                                                            # several obligations much slower in cbmc); RPO kept for experiments
        for b in order:
            pl = parsed[b]
            out.append('%s: ;' % self.lab(b))
            self.cur = b
            for x in pl:
                if x[0] == 'phi':
                    self.decl(x[1], x[2]); continue
                r = self.gen(x)
                if r: out.extend(r if isinstance(r, list) else [r])
        return self.finish(out)

    def finish(self, out):
        em = self.em; f = self.f
        names = [self.lname(pn) for _, pn, _ in f.params]
        hdr = em.proto(f.name, f.ret, [t for t, _, _ in f.params], f.va, names)
        dl = ['  %s %s;' % (ct, n) for n, ct in self.decls.items() if n not in names]
        return '%s {\n%s\n  goto %s;\n%s\n}\n' % (hdr, '\n'.join(dl), self.lab(f.entry), '\n'.join('  ' + s for s in out))

    # -------------------------------------------------- instruction parsing
    def parse_ins(self, s):
        s = re.sub(r'(,\s*![\w.]+\s+![\w.]+)+\s*$', '', s)       # trailing instruction metadata
        p = P(lex(s), self.em.m)
        res = None
        if p.peek()[0] in ('id', 'qid') and p.peek(1)[1] == '=':
            res = unq(p.next()[1][1:]); p.next()
        op = p.next()[1]
        if op in ('tail', 'musttail', 'notail'):
            op = p.next()[1]
        if op == 'phi':
            t = p.type(); inc = []
            while p.accept('['):
                v = p.value(t); p.expect(','); l = unq(p.next()[1][1:]); p.expect(']'); inc.append((v, l)); p.accept(',')
            return ('phi', res, t, inc)
        if op in ('add', 'sub', 'mul', 'udiv', 'sdiv', 'urem', 'srem', 'and', 'or', 'xor', 'shl', 'lshr', 'ashr', 'fadd', 'fsub', 'fmul', 'fdiv', 'frem'):
            while p.peek()[1] in ('nuw', 'nsw', 'exact', 'fast', 'nnan', 'ninf', 'nsz', 'arcp', 'contract', 'afn', 'reassoc'): p.next()
            t = p.type(); a = p.value(t); p.expect(','); b = p.value(t)
            return ('bin', res, op, t, a, b)
        if op == 'fneg':
            t = p.type(); a = p.value(t); return ('fneg', res, t, a)
        if op in ('icmp', 'fcmp'):
            while p.peek()[1] in ('fast', 'nnan', 'ninf', 'nsz', 'arcp', 'contract', 'afn', 'reassoc'): p.next()
            pred = p.next()[1]; t = p.type(); a = p.value(t); p.expect(','); b = p.value(t)
            return (op, res, pred, t, a, b)
        if op == 'load':
            while p.peek()[1] in ('volatile', 'atomic'): p.next()
            t = p.type(); p.expect(','); pt = p.type(); pv = p.value(pt)
            return ('load', res, t, pt, pv)
        if op == 'store':
            while p.peek()[1] in ('volatile', 'atomic'): p.next()
            t = p.type(); v = p.value(t); p.expect(','); pt = p.type(); pv = p.value(pt)
            return ('store', t, v, pt, pv)
        if op == 'getelementptr':
            p.accept('inbounds')
            bt = p.type(); p.expect(','); pt = p.type(); pv = p.value(pt); idx = []
            while p.accept(','):
                it = p.type(); iv = p.value(it); idx.append((it, iv))
            return ('gep', res, bt, pt, pv, idx)
        if op in ('bitcast', 'zext', 'sext', 'trunc', 'ptrtoint', 'inttoptr', 'uitofp', 'sitofp', 'fptoui', 'fptosi', 'fpext', 'fptrunc', 'addrspacecast'):
            ft = p.type(); fv = p.value(ft); p.expect('to'); tt = p.type()
            return ('cast', res, op, ft, fv, tt)
        if op == 'freeze':
            t = p.type(); v = p.value(t); return ('copy', res, t, v)
        if op == 'select':
            while p.peek()[1] in ('fast', 'nnan', 'ninf', 'nsz'): p.next()
            ct = p.type(); c = p.value(ct); p.expect(','); t = p.type(); a = p.value(t); p.expect(','); t2 = p.type(); b = p.value(t2)
            return ('select', res, c, t, a, b)
        if op == 'br':
            if p.peek()[1] == 'label':
                p.next(); return ('br', unq(p.next()[1][1:]))
            t = p.type(); c = p.value(t); p.expect(','); p.expect('label'); a = unq(p.next()[1][1:]); p.expect(','); p.expect('label'); b = unq(p.next()[1][1:])
            return ('cbr', c, a, b)
        if op == 'switch':
            t = p.type(); v = p.value(t); p.expect(','); p.expect('label'); d = unq(p.next()[1][1:]); p.expect('[')
            cases = []
            while not p.accept(']'):
                ct = p.type(); cv = p.value(ct); p.expect(','); p.expect('label'); cl = unq(p.next()[1][1:]); cases.append((cv, cl))
            return ('switch', t, v, d, cases)
        if op == 'ret':
            t = p.type()
            if t[0] == 'void': return ('ret', None, None)
            return ('ret', t, p.value(t))
        if op == 'unreachable': return ('unreachable',)
        if op == 'resume': return ('unreachable',)
        if op == 'landingpad': return ('landingpad', res, p.type())
        if op in ('call', 'invoke'):
            while p.peek()[0] == 'word' and p.peek()[1] in ('fast', 'nnan', 'ninf', 'nsz', 'arcp', 'contract', 'afn', 'reassoc', 'fastcc', 'ccc', 'coldcc'): p.next()
            p.skip_pattrs()
            rt = p.type()
            fty = None
            if rt[0] == 'func':      # explicit function type (varargs)
                fty = rt; rt = fty[1]
            elif rt[0] == 'ptr' and rt[1][0] == 'func' and p.peek()[0] in ('id', 'qid') and False:
                pass
            callee = p.value(('ptr', ('int', 8)))
            p.expect('(')
            args = []
            while not p.accept(')'):
                at = p.type(); info = p.skip_pattrs(); av = p.value(at); args.append((at, av, info)); p.accept(',')
            dest = None
            if op == 'invoke':
                while p.peek()[1] != 'to': p.next()
                p.next(); p.expect('label'); dest = unq(p.next()[1][1:])
            return ('call', res, rt, fty, callee, args, dest)
        if op == 'alloca':
            p.accept('inalloca')
            t = p.type(); cnt = None
            if p.accept(','):
                if p.peek()[1] != 'align':
                    ct = p.type(); cnt = (ct, p.value(ct))
            return ('alloca', res, t, cnt)
        if op == 'extractvalue':
            t = p.type(); v = p.value(t); idx = []
            while p.accept(','): idx.append(int(p.next()[1]))
            return ('extractvalue', res, t, v, idx)
        if op == 'insertvalue':
            t = p.type(); v = p.value(t); p.expect(','); et = p.type(); ev = p.value(et); idx = []
            while p.accept(','): idx.append(int(p.next()[1]))
            return ('insertvalue', res, t, v, et, ev, idx)
        if op == 'fence': return ('nop',)
        if op == 'atomicrmw':
            p.accept('volatile'); aop = p.next()[1]; pt = p.type(); pv = p.value(pt); p.expect(','); t = p.type(); v = p.value(t)
            return ('atomicrmw', res, aop, pt, pv, t, v)
        if op == 'cmpxchg':
            p.accept('weak'); p.accept('volatile'); pt = p.type(); pv = p.value(pt); p.expect(','); t = p.type(); c = p.value(t); p.expect(','); t2 = p.type(); n = p.value(t2)
            return ('cmpxchg', res, pt, pv, t, c, n)
        raise NotImplementedError('instruction %r' % s)

    def aggtype(self, t, idx):
        for k in idx:
            st = t
            if st[0] == 'named': st = self.em.m.types[st[1]]
            t = st[1][k] if st[0] == 'struct' else st[2]
        return t
    def aggpath(self, t, idx):
        s = ''
        for k in idx:
            st = t
            if st[0] == 'named': st = self.em.m.types[st[1]]
            if st[0] == 'struct': s += '.f%d' % k; t = st[1][k]
            else: s += '.a[%d]' % k; t = st[2]
        return s

    def edge(self, dst):
        """statements performing phi copies for edge cur->dst then goto"""
        em = self.em
        ph = self.phis.get(dst, [])
        if not ph: return 'goto %s;' % self.lab(dst)
        tmp = []; asg = []
        for i, (_, res, t, inc) in enumerate(ph):
            v = None
            for iv, il in inc:
                if il == self.cur: v = iv; break
            if v is None: raise KeyError('phi in %s has no incoming from %s (%s)' % (dst, self.cur, self.f.name))
            if v[0] == 'undef':
                continue
            tmp.append('%s p%d_ = %s;' % (em.cty(t), i, em.val(t, v, self)))
            asg.append('%s = p%d_;' % (self.lname(res), i))
        return '{ %s %s goto %s; }' % (' '.join(tmp), ' '.join(asg), self.lab(dst))

    def gen(self, x):
        em = self.em; k = x[0]
        V = lambda t, v: em.val(t, v, self)
        if k == 'bin':
            _, res, op, t, a, b = x; self.decl(res, t)
            return '%s = %s;' % (self.lname(res), em.binop(op, t, V(t, a), V(t, b)))
        if k == 'fneg':
            _, res, t, a = x; self.decl(res, t); return '%s = -%s;' % (self.lname(res), V(t, a))
        if k == 'icmp':
            _, res, pred, t, a, b = x; self.decl(res, ('int', 1))
            return '%s = %s;' % (self.lname(res), em.icmp(pred, t, V(t, a), V(t, b)))
        if k == 'fcmp':
            _, res, pred, t, a, b = x; self.decl(res, ('int', 1))
            A, B = V(t, a), V(t, b)
            ops = {'oeq': '==', 'ogt': '>', 'oge': '>=', 'olt': '<', 'ole': '<=', 'one': '!=', 'ueq': '==', 'ugt': '>', 'uge': '>=', 'ult': '<', 'ule': '<=', 'une': '!='}
            if pred in ops: e = '(%s %s %s)' % (A, ops[pred], B)
            elif pred == 'ord': e = '(%s == %s && %s == %s)' % (A, A, B, B)
            elif pred == 'uno': e = '(%s != %s || %s != %s)' % (A, A, B, B)
            elif pred == 'true': e = '1'
            else: e = '0'
            return '%s = (uint8_t)%s;' % (self.lname(res), e)
        if k == 'load':
            _, res, t, pt, pv = x; self.decl(res, t)
            acc = self.race_acc(pt, pv, t, 0)
            return acc + ['%s = *%s;' % (self.lname(res), V(pt, pv))]
        if k == 'store':
            _, t, v, pt, pv = x
            acc = self.race_acc(pt, pv, t, 1)
            return acc + ['*%s = %s;' % (V(pt, pv), V(t, v))]
        if k == 'gep':
            _, res, bt, pt, pv, idx = x
            e, rt = em.gep(bt, pt, V(pt, pv), [(it, V(it, iv)) for it, iv in idx])
            self.decl(res, ('ptr', rt))
            return '%s = %s;' % (self.lname(res), e)
        if k == 'cast':
            _, res, op, ft, fv, tt = x; self.decl(res, tt)
            return '%s = %s;' % (self.lname(res), em.cast(op, ft, V(ft, fv), tt))
        if k == 'copy':
            _, res, t, v = x; self.decl(res, t); return '%s = %s;' % (self.lname(res), V(t, v))
        if k == 'select':
            _, res, c, t, a, b = x; self.decl(res, t)
            return '%s = %s ? %s : %s;' % (self.lname(res), V(('int', 1), c), V(t, a), V(t, b))
        if k == 'br': return self.edge(x[1])
        if k == 'cbr':
            _, c, a, b = x
            return 'if (%s) %s else %s' % (V(('int', 1), c), self.edge(a), self.edge(b))
        if k == 'switch':
            _, t, v, d, cases = x
            s = ['switch (%s) {' % V(t, v)]
            for cv, cl in cases: s.append('  case %s: %s' % (V(t, cv), self.edge(cl)))
            s.append('  default: %s }' % self.edge(d))
            return s
        if k == 'ret':
            return self.gen_ret(x)
        if k == 'unreachable': return '__CPROVER_assume(0);'
        if k == 'landingpad':
            self.decl(x[1], x[2]); return '__CPROVER_assume(0);'
        if k == 'nop': return None
        if k == 'alloca':
            _, res, t, cnt = x
            self.decl(res, ('ptr', t))
            if isinstance(self, ResumableFuncEmitter) and (cnt is None or cnt[1][0] == 'int'):
                # resumable frame: stack objects live outside the frame (their address escapes into callees; a
                # frame that contains them is rebuilt as a whole on every field write)
                n = 1 if cnt is None else cnt[1][1]
                return '%s = (%s*)malloc(sizeof(%s) * %d); __CPROVER_assume(%s != 0);' % (self.lname(res), em.cty(t), em.cty(t), n, self.lname(res))
            if cnt is None or (cnt[1][0] == 'int'):
                n = 1 if cnt is None else cnt[1][1]
                st = self.lname(res) + '_mem'
                self.decls[st + ('[%d]' % n if n != 1 else '')] = em.cty(t)
                return '%s = %s%s;' % (self.lname(res), '&' if n == 1 else '', st)
            return '%s = (%s*)malloc(sizeof(%s) * %s);' % (self.lname(res), em.cty(t), em.cty(t), V(cnt[0], cnt[1]))
        if k == 'extractvalue':
            _, res, t, v, idx = x
            rt = self.aggtype(t, idx); self.decl(res, rt)
            return '%s = (%s)%s;' % (self.lname(res), V(t, v), self.aggpath(t, idx))
        if k == 'insertvalue':
            _, res, t, v, et, ev, idx = x
            self.decl(res, t)
            return ['%s = %s;' % (self.lname(res), V(t, v)), '%s%s = %s;' % (self.lname(res), self.aggpath(t, idx), V(et, ev))]
        if k == 'atomicrmw':
            _, res, aop, pt, pv, t, v = x; self.decl(res, t)
            P_ = V(pt, pv); o = {'add': '+', 'sub': '-', 'and': '&', 'or': '|', 'xor': '^'}.get(aop)
            if aop == 'xchg': upd = V(t, v)
            else: upd = em.mask(t, '*%s %s %s' % (P_, o, V(t, v)))
            return ['%s = *%s;' % (self.lname(res), P_), '*%s = %s;' % (P_, upd)]
        if k == 'cmpxchg':
            _, res, pt, pv, t, c, n = x
            rt = ('struct', (t, ('int', 1)), False); self.decl(res, rt)
            P_ = V(pt, pv); r = self.lname(res)
            return ['%s.f0 = *%s; %s.f1 = (%s.f0 == %s); if (%s.f1) *%s = %s;' % (r, P_, r, r, V(t, c), r, P_, V(t, n))]
        if k == 'call': return self.gen_call(x)
        raise NotImplementedError(k)

    def race_acc(self, pt, pv, t, w):
        """C11 instrumentation (ir2c --race-instrument): report the access to the lockset monitor unless the address is
        derived from one of this function's own stack objects"""
        em = self.em
        if not getattr(em, 'race_instrument', False): return []
        v = pv; hops = 0
        while v[0] == 'local' and hops < 12:
            d = self.defs.get(v[1]) if hasattr(self, 'defs') else None
            if d is None: break
            if d[0] == 'gep': v = d[4]
            elif d[0] == 'cast': v = d[4]
            else: break
            hops += 1
        if v[0] == 'local' and v[1] in getattr(self, 'alloca_names', ()): return []
        if v[0] == 'global':
            g = em.m.globals.get(em.unalias(v[1]))
            if g is not None and g.get('const'): return []          # vtables, string literals
        return ['verif_acc((uint8_t*)%s, sizeof(%s), %d);' % (em.val(pt, pv, self), em.cty(t), w)]

    def gen_ret(self, x):
        if x[1] is None: return 'return;'
        return 'return %s;' % self.em.val(x[1], x[2], self)

    def gen_call(self, x):
        em = self.em
        _, res, rt, fty, callee, args, dest = x
        V = lambda t, v: em.val(t, v, self)
        tail = [self.edge(dest)] if dest else []
        pre = []
        argv = []
        if callee[0] == 'global' and callee[1].startswith(INTRIN_SKIP):
            return tail
        for at, av, info in args:
            e = V(at, av)
            if 'byval' in info:
                tn = 'bv%d_' % len(self.decls)
                self.decls[tn] = em.cty(info['byval'])
                pre.append('%s = *%s;' % (tn, e)); e = '&' + tn
            argv.append(e)
        if callee[0] == 'global':
            nm = em.unalias(callee[1])
            if nm.startswith('llvm.'):
                r = self.intrinsic(nm, res, rt, args, argv)
                return pre + (r if isinstance(r, list) else [r] if r else []) + tail
            if res in getattr(self, 'alloc_hint', {}) and nm in ('_Znwm', '_Znam', 'malloc'):
                ht = self.alloc_hint[res]
                opq = ht[0] == 'named' and em.m.types.get(ht[1], ('opaque',))[0] == 'opaque'
                if not opq:
                    ct = em.cty(ht)
                    self.decl(res, rt)
                    return pre + ['%s = %s(%s);' % (self.lname(res), em.newfn(ht), argv[0])] + tail
            if nm in ('_Znwm', '_Znam', 'malloc') and res is not None:
                self.decl(res, rt)
                return pre + ['%s = %s(%s);' % (self.lname(res), em.newfn(('int', 8)), argv[0])] + tail
            if nm == '_ZNSi5tellgEv' and res is not None:
                # std::istream::tellg returns fpos {off, state} in registers: lowered to the stream model's cursor
                self.decl(res, rt)
                em.ext_funcs.setdefault('verif_tellg', (('int', 64), [('ptr', ('int', 8))], False))
                return pre + ['%s.f0 = verif_tellg((uint8_t*)%s); %s.f1 = 0;' % (self.lname(res), argv[0], self.lname(res))] + tail
            em.ref_global(nm)
            target = ('ir2c_' + nm) if nm in LIBC else san(nm)
            # argument casts to the callee's declared parameter types (linked modules may disagree on struct names)
            sig = None
            if nm in em.m.funcs and nm not in em.stubs: sig = [t for t, _, _ in em.m.funcs[nm].params]
            elif nm in em.ext_funcs: sig = em.ext_funcs[nm][1]
            is_ext = not (nm in em.m.funcs and nm not in em.stubs)
            if is_ext:
                argv = [('((uint8_t*)%s)' % a if args[i][0][0] == 'ptr' else a) for i, a in enumerate(argv)]
            elif sig:
                argv = [('(%s)%s' % (em.cty(sig[i]), a) if i < len(sig) and sig[i] != args[i][0] and sig[i][0] == 'ptr' else a) for i, a in enumerate(argv)]
        else:
            is_ext = False
            ft = ('func', rt, tuple(a[0] for a in args), False) if fty is None else fty
            target = '((%s)%s)' % (em.fnty(ft), V(('ptr', ft), callee))
            slot = self.vslot_of(callee)
            if slot is not None and not em.all_slots:
                target = '%s(%s, ' % (em.dispatcher(slot, ft), target)
                call = target + ', '.join(argv) + ')'
                if res is not None and rt[0] != 'void':
                    self.decl(res, rt)
                    return pre + ['%s = %s;' % (self.lname(res), call)] + tail
                return pre + [call + ';'] + tail
            cd = self.defs.get(callee[1]) if callee[0] == 'local' else None
            if cd is not None and cd[0] == 'load' and not em.all_slots:
                em.all_slots = True          # unrecognised shape of a virtual call: fall back to complete vtables
        call = '%s(%s)' % (target, ', '.join(argv))
        if callee[0] == 'global' and rt[0] == 'ptr' and is_ext:
            call = '((%s)%s)' % (em.cty(rt), call)
        if res is not None and rt[0] != 'void':
            self.decl(res, rt)
            return pre + ['%s = %s;' % (self.lname(res), call)] + tail
        return pre + [call + ';'] + tail

    def vslot_of(self, callee):
        """k if the callee value is `load (gep (load vptr), k)` (k = 0 without gep), else None"""
        if callee[0] != 'local': return None
        d = self.defs.get(callee[1])
        if not d or d[0] != 'load': return None
        pv = d[4]
        if pv[0] != 'local': return None
        k = 0
        pd = self.defs.get(pv[1])
        if pd and pd[0] == 'gep':
            idx = pd[5]
            if len(idx) != 1 or idx[0][1][0] != 'int': return None
            k = idx[0][1][1]
            base = pd[4]
            if base[0] != 'local': return None
            pd = self.defs.get(base[1])
        if not pd or pd[0] != 'load': return None
        t = pd[2]                     # loaded type must be pointer to pointer to function
        if t[0] == 'ptr' and t[1][0] == 'ptr' and t[1][1][0] == 'func': return k
        return None

    def intrinsic(self, nm, res, rt, args, a):
        em = self.em
        if nm.startswith(INTRIN_SKIP): return None
        r = self.lname(res) if res is not None else None
        if res is not None and rt[0] != 'void': self.decl(res, rt)
        if nm.startswith(('llvm.memcpy.', 'llvm.memmove.', 'llvm.memset.')):
            kind = nm.split('.')[1]
            def origin(av):
                t, v = av[0], av[1]
                seen = 0
                while v[0] == 'local' and v[1] in self.castdef and seen < 4:
                    t, v = self.castdef[v[1]]; seen += 1
                if v[0] == 'local' and v[1] in self.alloc_hint and t == ('ptr', ('int', 8)):
                    return ('ptr', self.alloc_hint[v[1]]), ('ccast', 'bitcast', t, v, ('ptr', self.alloc_hint[v[1]]))
                return t, v
            ot0 = origin(args[0]); ot1 = origin(args[1]) if kind != 'memset' else None
            def elem(t):
                if t[0] == 'ptr' and t[1][0] in ('int', 'ptr', 'double', 'float') and t[1] != ('int', 8): return t[1]
                return None
            e0 = elem(ot0[0]); e1 = elem(ot1[0]) if ot1 else None
            m = re.fullmatch(r'\(\(uint64_t\)(\d+)ull\)', a[2])
            if m and 0 < int(m.group(1)) <= 256:
                # constant size: one struct assignment of a byte array, no loop
                n = int(m.group(1))
                bt = em.cty(('array', n, ('int', 8)))
                if kind == 'memset':
                    mz = re.fullmatch(r'\(\(uint8_t\)0ull\)', a[1])
                    if mz: return '*(%s*)%s = (%s){{0}};' % (bt, a[0], bt)
                else:
                    return '{ %s t_ = *(%s*)%s; *(%s*)%s = t_; }' % (bt, bt, a[1], bt, a[0])
            if m and int(m.group(1)) == 0: return None
            # a typed array copied from/to a raw i8* view of another array of the same element type
            if kind != 'memset' and e0 is not None and e1 is None and ot1[0] == ('ptr', ('int', 8)): e1 = e0; ot1 = (('ptr', e0), ('ccast', 'bitcast', ot1[0], ot1[1], ('ptr', e0)))
            elif kind != 'memset' and e1 is not None and e0 is None and ot0[0] == ('ptr', ('int', 8)): e0 = e1; ot0 = (('ptr', e1), ('ccast', 'bitcast', ot0[0], ot0[1], ('ptr', e1)))
            if kind != 'memset' and e0 is not None and e0 == e1:
                ct = em.cty(e0)
                return 'IR2C_%s(%s, %s, %s, %s);' % ('COPY' if kind == 'memcpy' else 'MOVE', ct, em.val(ot0[0], ot0[1], self), em.val(ot1[0], ot1[1], self), a[2])
            if kind == 'memset' and e0 is not None and re.fullmatch(r'\(\(uint8_t\)0ull\)', a[1]):
                ct = em.cty(e0)
                return 'IR2C_ZERO(%s, %s, %s);' % (ct, em.val(ot0[0], ot0[1], self), a[2])
            if kind == 'memset' and e0 is not None and e0[0] == 'int':
                ct = em.cty(e0)
                return 'IR2C_FILL(%s, %s, %s, %s);' % (ct, em.val(ot0[0], ot0[1], self), a[1], a[2])
            m = re.fullmatch(r'\(\(uint64_t\)(\d+)ull\)', a[2])
            if m and 0 < int(m.group(1)) <= 256:
                n = int(m.group(1))
                bt = em.cty(('array', n, ('int', 8)))
                if kind == 'memset':
                    mz = re.fullmatch(r'\(\(uint8_t\)0ull\)', a[1])
                    if mz: return '*(%s*)%s = (%s){{0}};' % (bt, a[0], bt)
                else:
                    return '{ %s t_ = *(%s*)%s; *(%s*)%s = t_; }' % (bt, bt, a[1], bt, a[0])
            if m and int(m.group(1)) == 0: return None
            # inline byte loop: every call site owns its loop, so --unwindset can bound it per calling function
            if kind == 'memcpy': return 'IR2C_COPY(uint8_t, %s, %s, %s);' % (a[0], a[1], a[2])
            if kind == 'memmove': return 'IR2C_MOVE(uint8_t, %s, %s, %s);' % (a[0], a[1], a[2])
            return 'IR2C_FILL(uint8_t, %s, %s, %s);' % (a[0], a[1], a[2])
        if nm.startswith('llvm.trap') or nm.startswith('llvm.debugtrap'): return ['__CPROVER_assert(0, "llvm.trap");', '__CPROVER_assume(0);']
        t = args[0][0] if args else None
        if nm.startswith('llvm.umax.'): return '%s = %s > %s ? %s : %s;' % (r, a[0], a[1], a[0], a[1])
        if nm.startswith('llvm.umin.'): return '%s = %s < %s ? %s : %s;' % (r, a[0], a[1], a[0], a[1])
        if nm.startswith('llvm.smax.'): return '%s = %s > %s ? %s : %s;' % (r, em.signed(t, a[0]), em.signed(t, a[1]), a[0], a[1])
        if nm.startswith('llvm.smin.'): return '%s = %s < %s ? %s : %s;' % (r, em.signed(t, a[0]), em.signed(t, a[1]), a[0], a[1])
        if nm.startswith('llvm.abs.'): return '%s = %s < 0 ? %s : %s;' % (r, em.signed(t, a[0]), em.mask(t, '0 - %s' % a[0]), a[0])
        if nm.startswith('llvm.ctpop.'): return '%s = ir2c_ctpop64((uint64_t)%s);' % (r, a[0])
        if nm.startswith('llvm.ctlz.'): return '%s = ir2c_ctlz((uint64_t)%s, %d);' % (r, a[0], t[1])
        if nm.startswith('llvm.cttz.'): return '%s = ir2c_cttz((uint64_t)%s, %d);' % (r, a[0], t[1])
        if nm.startswith('llvm.bswap.'): return '%s = ir2c_bswap((uint64_t)%s, %d);' % (r, a[0], t[1])
        if nm.startswith('llvm.fshl.'):
            b = t[1]; return '%s = %s;' % (r, em.mask(t, '(%s %% %d) ? ((%s << (%s %% %d)) | (%s >> (%d - (%s %% %d)))) : %s' % (a[2], b, a[0], a[2], b, a[1], b, a[2], b, a[0])))
        if nm.startswith('llvm.fshr.'):
            b = t[1]; return '%s = %s;' % (r, em.mask(t, '(%s %% %d) ? ((%s >> (%s %% %d)) | (%s << (%d - (%s %% %d)))) : %s' % (a[2], b, a[1], a[2], b, a[0], b, a[2], b, a[1])))
        m = re.match(r'llvm\.(u|s)(add|sub|mul)\.with\.overflow\.i(\d+)', nm)
        if m:
            sg, op, b = m.group(1), m.group(2), int(m.group(3))
            o = {'add': '+', 'sub': '-', 'mul': '*'}[op]
            if sg == 'u':
                wide = 'unsigned __int128' if b > 32 else 'uint64_t'
                return ['{ %s w_ = (%s)%s %s (%s)%s; %s.f0 = (%s)w_; %s.f1 = (uint8_t)(w_ != (%s)%s.f0); }' % (wide, wide, a[0], o, wide, a[1], r, em.cty(t), r, wide, r)]
            wide = '__int128' if b > 32 else 'int64_t'
            return ['{ %s w_ = (%s)%s %s (%s)%s; %s.f0 = (%s)w_; %s.f1 = (uint8_t)(w_ != (%s)%s); }' % (wide, wide, em.signed(t, a[0]), o, wide, em.signed(t, a[1]), r, em.cty(t), r, wide, em.signed(t, r + '.f0'))]
        if nm.startswith('llvm.objectsize.'): return '%s = %s;' % (r, em.mask(rt, '~0ull'))
        if nm.startswith('llvm.is.constant.'): return '%s = 0;' % r
        if nm.startswith('llvm.expect.'): return '%s = %s;' % (r, a[0])
        if nm.startswith('llvm.stacksave'): return '%s = 0;' % r
        if nm.startswith('llvm.stackrestore'): return None
        if nm.startswith(('llvm.sqrt.', 'llvm.floor.', 'llvm.ceil.', 'llvm.fabs.', 'llvm.pow.', 'llvm.log2.', 'llvm.log.', 'llvm.exp.')):
            fnm = nm.split('.')[1] + ('f' if rt[0] == 'float' else '')
            return '%s = %s(%s);' % (r, fnm, ', '.join(a))
        if nm.startswith('llvm.fmuladd.'): return '%s = %s * %s + %s;' % (r, a[0], a[1], a[2])
        raise NotImplementedError('intrinsic ' + nm)

class ResumableFuncEmitter(FuncEmitter):
    """E2: a function that can reach a blocking primitive becomes `int f_step(struct FR_f *fr)`: its SSA values live in the
    frame, a call to another may-block function (or to a primitive, whose step function is hand-written in rt/e2_rt.c) runs
    the callee's step function on a sub-frame and, when that yields (returns 0), stores the resume point and yields too."""
    def __init__(self, em, f):
        FuncEmitter.__init__(self, em, f)
        self.sites = 0
        self.subs = []            # callee names whose frames are embedded
    def lname(self, n):
        return 'fr->' + FuncEmitter.lname(self, n)
    def gen_ret(self, x):
        if x[1] is None: return 'return 1;'
        return ['fr->ret = %s;' % self.em.val(x[1], x[2], self), 'return 1;']
    def subcall(self, nm, argv, args, res, rt):
        em = self.em
        self.sites += 1; k = self.sites
        if nm not in self.subs: self.subs.append(nm)
        sf = 'fr->sub.%s' % em.frame_field(nm)
        out = ['%s.pc = 0;' % sf]
        if nm in em.blocking:
            out += ['%s.a%d = %s;' % (sf, i, ('(uint8_t*)%s' % a) if args[i][0][0] == 'ptr' else a) for i, a in enumerate(argv)]
        else:
            em.ref_global(nm)
            sig = [t for t, _, _ in em.m.funcs[nm].params]
            out += ['%s.a%d = %s;' % (sf, i, ('(%s)%s' % (em.cty(sig[i]), a)) if sig[i][0] == 'ptr' else a) for i, a in enumerate(argv)]
        out.append('R_%d: ;' % k)
        out.append('if (!%s_step(&%s)) { fr->pc = %d; return 0; }' % (san(nm), sf, k))
        if res is not None and rt[0] != 'void':
            self.decl(res, rt)
            out.append('%s = %s%s.ret;' % (self.lname(res), '(%s)' % em.cty(rt) if rt[0] == 'ptr' else '', sf))
        return out
    def gen_call(self, x):
        em = self.em
        _, res, rt, fty, callee, args, dest = x
        V = lambda t, v: em.val(t, v, self)
        tail = [self.edge(dest)] if dest else []
        if callee[0] == 'global':
            nm = em.unalias(callee[1])
            if nm in em.blocking or nm in em.mayblock:
                for at, av, info in args:
                    if 'byval' in info: raise NotImplementedError('byval argument to a may-block call in ' + self.f.name)
                return self.subcall(nm, [V(at, av) for at, av, info in args], args, res, rt) + tail
            return FuncEmitter.gen_call(self, x)
        # indirect call: may-block candidates are dispatched to their step functions
        ft = ('func', rt, tuple(a[0] for a in args), False) if fty is None else fty
        cands = [nm for nm in em.mayblock if nm in em.addr_taken and em.sig_compatible(nm, ft)]
        if not cands:
            return FuncEmitter.gen_call(self, x)
        fv = 'fr->vf%d_' % len(self.decls)
        self.decls[fv] = em.fnty(ft)
        out = ['%s = ((%s)%s);' % (fv, em.fnty(ft), V(('ptr', ft), callee))]
        argv = [V(at, av) for at, av, info in args]
        self.sites += 1; d = self.sites
        for nm in cands:
            em.ref_global(nm)
            self.sites += 1; n = self.sites
            out.append('if (%s != (%s)&%s) goto N_%d;' % (fv, em.fnty(ft), san(nm), n))
            out += self.subcall(nm, argv, args, res, rt)
            out.append('goto D_%d;' % d)
            out.append('N_%d: ;' % n)
        # remaining targets are ordinary functions
        call = '%s(%s)' % (fv, ', '.join(argv))
        if res is not None and rt[0] != 'void':
            self.decl(res, rt); out.append('%s = %s;' % (self.lname(res), call))
        else: out.append(call + ';')
        out.append('D_%d: ;' % d)
        return out + tail
    def finish(self, out):
        em = self.em; f = self.f
        fields = ['uint32_t pc;']
        if f.ret[0] != 'void': fields.append('%s ret;' % em.cty(f.ret))
        pro = []
        for i, (t, pn, info) in enumerate(f.params):
            fields.append('%s a%d;' % (em.cty(t), i))
            nm = FuncEmitter.lname(self, pn)
            if ('fr->' + nm) not in self.decls: self.decls['fr->' + nm] = em.cty(t)
            pro.append('fr->%s = fr->a%d;' % (nm, i))
        for n, ct in self.decls.items():
            fields.append('%s %s;' % (ct, n[4:] if n.startswith('fr->') else n))
        if self.subs:
            fields.append('struct { %s } sub;' % ' '.join('struct FR_%s %s;' % (san(nm), em.frame_field(nm)) for nm in self.subs))
        em.frames[f.name] = ('struct FR_%s { %s };' % (san(f.name), ' '.join(fields)), list(self.subs))
        sw = ['case %d: goto R_%d;' % (k, k) for k in range(1, self.sites + 1) if ('R_%d: ;' % k) in out]
        body = '\n'.join('  ' + s_ for s_ in out)
        return ('static int %s_step(struct FR_%s *fr) {\n  switch (fr->pc) { case 0: break; %s default: __CPROVER_assert(0, "VERIF model: bad resume point"); __CPROVER_assume(0); }\n  %s\n  goto %s;\n%s\n}\n'
                % (san(f.name), san(f.name), ' '.join(sw), ' '.join(pro), self.lab(f.entry), body))

def main():
    import argparse
    ap = argparse.ArgumentParser()
    ap.add_argument('ll'); ap.add_argument('-o', '--out', required=True)
    ap.add_argument('--entry', action='append', default=[])
    ap.add_argument('--stub', action='append', default=[], help='treat as external even if defined')
    ap.add_argument('--stubfile')
    ap.add_argument('--report')
    ap.add_argument('--race-instrument', action='store_true', help='E2/C11: report loads/stores to the lockset monitor');
    ap.add_argument('--e2-main'); ap.add_argument('--e2-setup', help='plain function run once before scheduling starts'); ap.add_argument('--e2-thread-entry', help='regex of the thread body function (std::thread::_State_impl<...>::_M_run)')
    ap.add_argument('--blocking', action='append', default=[], help='E2: blocking primitive (step function in rt/e2_rt.h)')
    ap.add_argument('--defined', help='file with names of functions the environment model defines; other externals become traps')
    a = ap.parse_args()
    stubs = list(a.stub)
    if a.stubfile:
        stubs += [l.strip() for l in open(a.stubfile) if l.strip() and not l.startswith('#')]
    mod = Module(open(a.ll).read())
    em = Emitter(mod, stubs)
    if a.defined:
        em.defined = set(l.strip() for l in open(a.defined) if l.strip())
    em.race_instrument = bool(a.race_instrument)
    if a.race_instrument: em.ext_funcs['verif_acc'] = (('void',), [('ptr', ('int', 8)), ('int', 64), ('int', 32)], False)
    if a.blocking:
        em.blocking = set(a.blocking)
        em.compute_mayblock()
    entries = list(a.entry)
    tentry = None
    if a.e2_main:
        entries.append(a.e2_main)
        if a.e2_setup: entries.append(a.e2_setup)
        cands = [n for n in mod.funcs if re.fullmatch(a.e2_thread_entry, n)] if a.e2_thread_entry else []
        if len(cands) > 1: raise SystemExit('ir2c: several thread entry functions match: %s' % cands)
        if cands: tentry = cands[0]; entries.append(tentry)
    c = em.run(entries)
    if a.e2_main:
        mn = san(a.e2_main)
        c += 'static struct FR_%s verif_mainfr;\n' % mn
        if tentry:
            tn = san(tentry)
            pt = em.cty(mod.funcs[tentry].params[0][0])
            # one frame object per model thread and a case split on the thread id, so that every frame access in a
            # step has a constant base address (a symbolic index into an array of frames makes symex copy whole frames)
            for i in range(1, 5):
                c += '#if VERIF_MAXT > %d\nstatic struct FR_%s verif_tfr%d;\n#endif\n' % (i, tn, i)
            c += 'static void verif_thread_init(uint32_t t, uint8_t *state) {\n'
            for i in range(1, 5):
                c += '#if VERIF_MAXT > %d\n  if (t == %d) { verif_tfr%d.pc = 0; verif_tfr%d.a0 = (%s)state; }\n#endif\n' % (i, i, i, i, pt)
            c += '}\n'
            c += 'static int verif_step_thread(uint32_t t) {\n  if (t == 0) { verif_cur = 0; return %s_step(&verif_mainfr); }\n' % mn
            for i in range(1, 5):
                c += '#if VERIF_MAXT > %d\n  if (t == %d) { verif_cur = %d; return %s_step(&verif_tfr%d); }\n#endif\n' % (i, i, i, tn, i)
            c += '  return 1;\n}\n'
        else:
            c += 'static void verif_thread_init(uint32_t t, uint8_t *state) { __CPROVER_assert(0, "VERIF model: no thread entry function in the module"); }\n'
            c += 'static int verif_step_thread(uint32_t t) { return %s_step(&verif_mainfr); }\n' % mn
        c += 'void verif_e2_entry(void) { %sverif_mainfr.pc = 0; verif_e2_run(); }\n' % (('%s(); ' % san(a.e2_setup)) if a.e2_setup else '')
    open(a.out, 'w').write(c)
    rep = dict(functions=sorted(em.seen_funcs), externals=sorted(n for n in em.ext_funcs if not n.startswith('llvm.')),
               globals=list(em.seen_globals), mayblock=sorted(n for n in em.mayblock if n in em.seen_funcs), trapped=sorted(getattr(em, 'trapped', [])), external_globals=[g for g in em.seen_globals if mod.globals[g].get('external') or (mod.globals[g].get('init') is None and 'alias' not in mod.globals[g])])
    if a.report: json.dump(rep, open(a.report, 'w'), indent=1)
    sys.stderr.write('ir2c: %d functions, %d externals, %d globals\n' % (len(rep['functions']), len(rep['externals']), len(rep['globals'])))

if __name__ == '__main__':
    main()
