#!/usr/bin/env python3
"""subst.py FILE OLDFILE NEWFILE : replace exactly one occurrence, preserving CRLF/LF of FILE"""
import sys
p, o, n = sys.argv[1:4]
s = open(p, 'rb').read()
old = open(o, 'rb').read().rstrip(b'\n'); new = open(n, 'rb').read().rstrip(b'\n')
crlf = b'\r\n' in s
if crlf:
    old = old.replace(b'\r\n', b'\n').replace(b'\n', b'\r\n'); new = new.replace(b'\r\n', b'\n').replace(b'\n', b'\r\n')
c = s.count(old)
if c != 1:
    sys.exit('subst: %d occurrences of old text in %s' % (c, p))
open(p, 'wb').write(s.replace(old, new))
print('subst ok', p)
