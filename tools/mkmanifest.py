#!/usr/bin/env python3
"""Regenerates MANIFEST.json from the property table below (claimed checks / not applicable)."""
import json, os, sys
VERIF = os.path.dirname(os.path.dirname(os.path.abspath(__file__)))
sys.path.insert(0, VERIF)
from vlib import obligations as OBL

TECH_E1 = 'bounded symbolic model checking of the real C++ (clang LLVM IR -> ir2c.py -> cbmc 6.11 SAT), counterexamples replayed natively under ASan'
TECH_E2 = 'bounded symbolic model checking over schedules: real Worker.hpp / block-constructor IR made resumable at blocking primitives, scheduler choices are solver variables (cbmc)'

CLAIMS = {
    # id: (design_ref, text, note, technique)
    'C17': ('3/C17', 'For every value / width / position inside the stated bounds the solver proves round-trip and non-interference of the real VByte, LogSequence and libcds field kernels; DAC units as listed in the evidence. Bounded, so not a proof for arbitrary capacities.',
            'clang-14 IR, ir2c.py, rt/stubs.c stream model, cbmc; capacities <= 3-4 entries', TECH_E1),
}

NA = {}


def main():
    checks = []
    na = []
    for p in OBL.ALL_PROPS:
        if p in CLAIMS and OBL.obligations(p):
            ref, text, note, tech = CLAIMS[p]
            checks.append(dict(property_id=p, quick_cmd='./check %s --tier quick' % p, thorough_cmd='./check %s --tier thorough' % p,
                               evidence_file='evidence/%s.json' % p, replay_cmd_template='./check replay {path}',
                               engine='seqsched' if p in OBL.E2_PROPS else 'irsym',
                               level_claimed=dict(category='model_checking', text=text, design_ref='DESIGN.md section ' + ref),
                               level_note=note, technique=tech))
        else:
            na.append(dict(property_id=p, reason=NA.get(p, 'no check registered yet in this revision of the machinery (work in progress; see DESIGN.md)')))
    hooks_commits = [l.strip() for l in open(os.path.join(VERIF, 'hooks_commits.txt')) if l.strip()] if os.path.exists(os.path.join(VERIF, 'hooks_commits.txt')) else []
    m = dict(version=1,
             setup_cmd='python3 tools/setup_check.py',
             hooks=dict(guard='LIBCSD_VERIF',
                        enable='checks compile /repo sources with -DLIBCSD_VERIF (plus -DLIBCSD_VERIF_MEMALLOC=<n> where an obligation says so); the library build is untouched',
                        baseline_off_cmd='cmake -G Ninja -S /repo -B /repo/_build >/dev/null && cmake --build /repo/_build >/dev/null && ctest --test-dir /repo/_build -j8 --timeout 900',
                        source_commits=hooks_commits, add_only=True),
             engines=[dict(name='irsym', path='vlib/core.py', serves_properties=[p for p in OBL.ALL_PROPS if p in CLAIMS and p not in OBL.E2_PROPS],
                           kind_free_text='clang++-14 -S -emit-llvm of /repo sources + C++ harness -> llvm-link -> ir2c.py (typed IR->C) -> cbmc; native g++/ASan replay'),
                      dict(name='seqsched', path='vlib/e2.py', serves_properties=[p for p in OBL.E2_PROPS if p in CLAIMS],
                           kind_free_text='same translation in resumable mode + modelled pthread primitives + symbolic scheduler, cbmc')],
             checks=checks,
             notes='All checks are bounded symbolic checks of the real code; bounds, stubs and what lies outside are in DESIGN.md and in each evidence file. Exit 2 = machinery broken (never a verdict).',
             not_applicable=na)
    json.dump(m, open(os.path.join(VERIF, 'MANIFEST.json'), 'w'), indent=1)
    print('MANIFEST.json: %d checks, %d not_applicable' % (len(checks), len(na)))


if __name__ == '__main__':
    main()
