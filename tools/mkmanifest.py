#!/usr/bin/env python3
"""Regenerates MANIFEST.json from the property table below (claimed checks / not applicable)."""
import json, os, sys
VERIF = os.path.dirname(os.path.dirname(os.path.abspath(__file__)))
sys.path.insert(0, VERIF)
from vlib import obligations as OBL

TECH_E1 = 'bounded symbolic model checking of the real C++ (clang LLVM IR -> ir2c.py -> cbmc 6.11 SAT), counterexamples replayed natively under ASan'
TECH_E2 = 'bounded symbolic model checking over schedules: real Worker.hpp / block-constructor IR made resumable at blocking primitives, scheduler choices are solver variables (cbmc)'

def E1(ref, text, note): return (ref, text, note, TECH_E1)
def E2(ref, text, note, tech=None): return (ref, text, note, tech or TECH_E2)
BASE_NOTE = 'clang-14 -O1 IR of /repo; ir2c.py (checked per obligation by a native differential self-test); rt/stubs.c environment model (allocation never fails, streams, logging, exceptions = abnormal termination); cbmc 6.11 + SAT; bounds as listed in the evidence file'
CLAIMS = {
 'C01': E1('3/C01', 'Solver-decided for ALL valid input sets within the bounds (PFC whole kind: n<=3..5 strings of <=2..3 bytes over 0x02..0xFE, every bucket size listed): locate/extract are mutually inverse, lengths and terminators exact, on the fresh object and on the object reloaded from its image; DAC_VLS unit for the Re-Pair kinds\' sequence store incl. the list length the constructors pass. Other kinds: units only (DESIGN.md table).', BASE_NOTE),
 'C02': E1('3/C02', 'For all valid sets within the PFC bounds and ALL queries up to LMAX+1 bytes: locate returns the rank for members and 0 otherwise; extract of 0 / any id > n (full size_t range) is NULL with length 0; the ID-range guard of extract is decided for all 12 default-constructible kinds over the full (id, elements) range; pointer and bounds checks on.', BASE_NOTE),
 'C03': E1('3/C03', 'PFC whole kind within the bounds: IDs are ranks in unsigned-byte order (extract(i) < extract(j) for all i<j, extract(i) = i-th input string, locateRank/extractRank consistent). Other order-preserving kinds are outside solver reach (DESIGN.md).', BASE_NOTE),
 'C04': E1('3/C04', 'PFC whole kind within the bounds and ALL patterns up to LMAX+1 bytes: locatePrefix yields exactly the contiguous ascending ID range of the members that start with the pattern (empty stream with NORESULT limits otherwise), extractPrefix exactly those strings; IteratorDictIDContiguous unit over all limits.', BASE_NOTE),
 'C06': E1('3/C06', 'PFC whole kind within the bounds: save -> kind loader / generic loader -> same answers, bytes consumed == bytes written, re-save identical; save/load/save units for LogSequence, DAC_VLS, DAC_BVLS, BitSequenceRG (generic bitmap loader), BitString; generic dictionary loader\'s tag dispatch for all 2^32 tags; PFC header fields (elements over 2^64, maxlength/buckets/bucketsize over 2^32) transported unchanged by both loaders and by re-save.', BASE_NOTE),
 'C07': E1('3/C07', 'Every obligation of every E1 property runs with cbmc\'s pointer/bounds/use-after-free/double-free checks and unwinding assertions (termination within the bound). C07 adds: PFC construction with the MEMALLOC hook set to 2..4 so the text buffer must grow (Reallocate exercised), 2-call API histories incl. iterators, save and destroy, Reallocate unit, DAC_VLS access bounds, duplicate-skipping iterator.', BASE_NOTE + '; hook LIBCSD_VERIF_MEMALLOC'),
 'C08': E1('3/C08', 'PFC within the bounds: two saves identical, build-twice images byte-identical (uninitialised heap bytes are nondeterministic in the model, so a stray byte fails), save of a loaded image reproduces it, image unchanged by a query; same for DAC_VLS/DAC_BVLS/LogSequence units.', BASE_NOTE),
 'C09': E2('3/C09', 'Real HASHRPDACBlocks constructor + real WorkerPool under every schedule within the bounds: blocks land in input order, every slot filled before the constructor returns, same parts/indexes for 1 and 2 workers; the per-block builder is abstracted by name.', BASE_NOTE + '; rt/e2_rt.h primitive model'),
 'C10': E2('3/C10', 'Real parallel/Worker.hpp (WorkerPool, Worker, WorkerQueue; real std::function, real condition-variable predicate loop) under EVERY schedule with at most K-1 context switches (pre-emption at every lock / wait / join point): no deadlock (lost wake-up, wait_workers not returning), every task runs exactly once and never concurrently with itself. Counterexample schedules are replayed on real threads under a schedule-forcing pthread layer.', 'clang-14 -O1 IR incl. libstdc++ header code; ir2c.py resumable mode; rt/e2_rt.h (mutex, condition variable, thread start/join model; sequentially consistent); task queue container replaced by a bounded FIFO (harness); cbmc'),
 'C11': E2('3/C11', 'Real parallel/Worker.hpp under every schedule within the context bound: every load/store of the thread code that touches the WorkerPool object (queue, flags), a Worker object or the task counters is checked by an Eraser-style lockset monitor (state per 4-byte granule, lockset = model mutexes held); a shared location written without a common lock fails. Reported races are confirmed with ThreadSanitizer on the real code. The block constructor\'s own shared state and the per-block builder are NOT covered (stated in DESIGN.md).', 'as C10, plus rt/e2_rt.h lockset monitor; shared regions as registered by the harness', TECH_E2 + '; lockset (Eraser) monitor assertion over instrumented loads/stores; ThreadSanitizer confirmation'),
 'C12': E1('3/C12', 'Two PFC dictionaries built from the same symbolic input with different bucket sizes (incl. 0 and 1, which must be replaced by 2) answer every locate / extract(any id) / locatePrefix query identically, for all inputs within the bounds.', BASE_NOTE),
 'C13': E1('3/C13', 'PFC extractTable within the bounds: exactly n strings, k-th == extract(k), reported length == strlen, hasNext false afterwards; extractPrefix iterators from every in-bucket offset; ID iterators (contiguous, duplicates with the caller-written sentinel, non-contiguous) and the vector string iterator over symbolic backing arrays.', BASE_NOTE),
 'C14': E1('3/C14', 'PFC within the bounds: for ALL query pairs (A,B) the answer to A is the same before and after B with an iterator left open, pattern buffers (incl. guard byte) unchanged, and the saved image of the object is bit-identical before and after any single query (inductive step for histories of any length).', BASE_NOTE),
 'C15': E1('3/C15', 'PFC within the bounds: numElements == n and len_max <= maxLength <= len_max+1 on the fresh and on the reloaded object; for a loaded image numElements/maxLength equal the header values over their full 64/32-bit range (both loaders).', BASE_NOTE),
 'C16': E1('3/C16', 'Unsupported operations return NULL/NORESULT and leave the pattern alone on all 12 default-constructible kinds (symbolic patterns/ranks); every kind\'s loader returns NULL on ANY other tag (all 2^32-1 values) having consumed exactly 4 bytes; generic loader dispatch for all 2^32 tags.', BASE_NOTE),
 'C17': E1('3/C17', 'VByte/VB2 round trip for all 2^32 values; LogSequence set/get for every width 1..64, symbolic positions/values, overwrites, save/load; libcds 32-bit field kernels; DAC_VLS/DAC_BVLS access of every sequence incl. length-1, maximal and last sequence, save/load.', BASE_NOTE),
 'C18': E1('3/C18', 'Coder half only: StatCoder::encodeSymbol/encodeString emit, for ANY code table (codeword lengths 1..20 bits, i.e. longer than the 16-bit decoding chunk), any 2-4 symbol string and any start bit offset, exactly the concatenation of the codewords with exact byte count / offset and zero padding; DecodingTree save is repeatable. NOT decided (stated in DESIGN.md): Huffman / Hu-Tucker code construction, DecodingTableBuilder (std::map) and chunked table decoding.', BASE_NOTE),
 'C19': E1('3/C19', 'BitSequenceRG (the bitmap libCSD instantiates) for ALL bitmaps of the listed lengths and sampling factors: access, rank1, rank0, select1, select0, selectNext1 equal their plain definitions; unchanged after save/generic load; BitString. RRR, SDArray, DArray and the wavelet trees are outside solver reach (not claimed).', BASE_NOTE),
}

NA = {
 'C09': 'the real HASHRPDACBlocks constructor + WorkerPool was encoded for the concurrency engine (harness/h_blocks_par.cpp, per-block builder replaced by name) but the smallest instance (1 string, 1 worker, 4 context switches) ran out of memory in propositional reduction after 1 h and the 2-string instance did not finish symbolic execution in 40 min: no verdict within reach (DESIGN.md 3/C09). The pool protocol it relies on is decided under C10',
 'C20': 'the Re-Pair compressor (IRePair: 65536-entry pair hash, heap of frequency lists, float growth factors) gave no verdict in 28 min on a 4-symbol sequence and a whole-kind RPDAC encoding with a model compressor gave none in 1 h; the grammar consumers are exercised only through the DAC units of C17 (DESIGN.md 3/C20)',
 'C05': 'substring search exists only in FMINDEX and XBW, whose answers depend on suffix sorting, BWT, wavelet trees and the XBW trie: none of that construction code is encodable within solver reach (DESIGN.md section 3/C05); the duplicate-skipping ID iterator is verified under C13',
}


def main():
    checks = []
    na = []
    for p in OBL.ALL_PROPS:
        if p in CLAIMS and OBL.obligations(p):
            ref, text, note, tech = CLAIMS[p]
            checks.append(dict(property_id=p, quick_cmd='./check %s --tier quick' % p, thorough_cmd='./check %s --tier thorough' % p,
                               evidence_file='evidence/%s.json' % p, replay_cmd_template='./check replay {path}',
                               engine='seqsched' if p in OBL.E2_PROPS else 'irsym',
                               level_claimed=dict(category='model_checking', text=text, design_ref='DESIGN.md section ' + ref),
                               level_note=note, technique=tech))
        else:
            na.append(dict(property_id=p, reason=NA.get(p, 'no check registered yet in this revision of the machinery (work in progress; see DESIGN.md)')))
    hooks_commits = [l.strip() for l in open(os.path.join(VERIF, 'hooks_commits.txt')) if l.strip()] if os.path.exists(os.path.join(VERIF, 'hooks_commits.txt')) else []
    m = dict(version=1,
             setup_cmd='python3 tools/setup_check.py',
             hooks=dict(guard='LIBCSD_VERIF',
                        enable='checks compile /repo sources with -DLIBCSD_VERIF (plus -DLIBCSD_VERIF_MEMALLOC=<n> where an obligation says so); the library build is untouched',
                        baseline_off_cmd='cmake -G Ninja -S /repo -B /repo/_build >/dev/null && cmake --build /repo/_build >/dev/null && ctest --test-dir /repo/_build -j8 --timeout 900',
                        source_commits=hooks_commits, add_only=True),
             engines=[dict(name='irsym', path='vlib/core.py', serves_properties=[p for p in OBL.ALL_PROPS if p in CLAIMS and OBL.obligations(p) and p not in OBL.E2_PROPS],
                           kind_free_text='clang++-14 -S -emit-llvm of /repo sources + C++ harness -> llvm-link -> ir2c.py (typed IR->C) -> cbmc; native g++/ASan replay'),
                      dict(name='seqsched', path='vlib/e2.py', serves_properties=[p for p in OBL.E2_PROPS if p in CLAIMS and OBL.obligations(p)],
                           kind_free_text='same translation in resumable mode + modelled pthread primitives + symbolic scheduler, cbmc')],
             checks=checks,
             notes='All checks are bounded symbolic checks of the real code; bounds, stubs and what lies outside are in DESIGN.md and in each evidence file. Exit 2 = machinery broken (never a verdict).',
             not_applicable=na)
    json.dump(m, open(os.path.join(VERIF, 'MANIFEST.json'), 'w'), indent=1)
    print('MANIFEST.json: %d checks, %d not_applicable' % (len(checks), len(na)))


if __name__ == '__main__':
    main()
