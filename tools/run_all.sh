#!/bin/bash
# usage: tools/run_all.sh <tier> [props...]   runs the checks one after another, summary lines to stdout
tier=${1:-quick}; shift
props=${@:-C01 C02 C03 C04 C06 C07 C08 C09 C10 C11 C12 C13 C14 C15 C16 C17 C18 C19 C20}
cd "$(dirname "$0")/.."
for p in $props; do
  echo "=== $p ($tier) $(date +%T)"
  ./check $p --tier $tier 2>&1 | grep -E "^(SUMMARY|VIOLATION|INCONCLUSIVE|VACUOUS|KNOWN-FINDING|NOTE|  obligation)" 
  echo "exit=$?"
done
