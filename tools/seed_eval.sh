#!/bin/bash
# usage: seed_eval.sh <seed-id> <agent-out-dir> "<check invocations separated by ;>"
#   1. stores patch/demo/notes under /verif/seeded/<seed-id>/
#   2. applies the patch to /repo, runs the given checks (quick tier unless stated), restores /repo
# The independent confirmation (builds, ctest passes with the patch, demo fails with / passes without) is done by
# seed_confirm.sh in a scratch worktree.
id=$1; src=$2; checks=$3
dst=/verif/seeded/$id; mkdir -p $dst
cp $src/patch.diff $dst/patch.diff; cp $src/demo.cpp $dst/demo.cpp 2>/dev/null; cp $src/notes.md $dst/notes.md 2>/dev/null
cd /repo || exit 9
if [ -n "$(git status --porcelain --untracked-files=no)" ]; then echo "/repo is dirty"; exit 9; fi
git apply $dst/patch.diff || { echo "patch does not apply"; exit 9; }
log=$dst/check_output.txt; : > $log
cd /verif
IFS=';' read -ra CK <<< "$checks"
for c in "${CK[@]}"; do
  echo "### ./check $c" >> $log
  ./check $c --no-evidence 2>&1 | grep -E "^(SUMMARY|VIOLATION|INCONCLUSIVE|VACUOUS|KNOWN-FINDING|  obligation)" >> $log
done
git -C /repo checkout -- .
grep -E "VIOLATION|SUMMARY" $log
