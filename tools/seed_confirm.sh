#!/bin/bash
# usage: seed_confirm.sh <worktree> <mutant-dir> "<demo compile command (run in worktree)>" [runs]
# confirms independently: patch applies, library builds with the project flags, ctest passes with the patch,
# demo fails with the patch and passes without.  Prints one CONFIRM line.
wt=$1; m=$2; cc=$3; runs=${4:-1}
cd $wt || exit 9
git checkout -q -- . ; git apply $m/patch.diff || { echo "CONFIRM $m: patch does not apply"; exit 1; }
cmake -G Ninja -S $wt -B $wt/_build > /dev/null 2>&1; cmake --build $wt/_build > $m/confirm_build.log 2>&1 || { echo "CONFIRM $m: BUILD FAILS with patch"; git checkout -q -- .; exit 1; }
t_ok=1; for i in $(seq 1 $runs); do ctest --test-dir $wt/_build --timeout 300 > $m/confirm_ctest.log 2>&1 || t_ok=0; done
(cd $wt && eval "$cc" -o $m/demo_mut) > $m/confirm_demo_build.log 2>&1
timeout 60 $m/demo_mut > $m/confirm_demo_mut.log 2>&1; rc_mut=$?
git checkout -q -- .
cmake --build $wt/_build > /dev/null 2>&1
(cd $wt && eval "$cc" -o $m/demo_clean) >> $m/confirm_demo_build.log 2>&1
timeout 60 $m/demo_clean > $m/confirm_demo_clean.log 2>&1; rc_clean=$?
echo "CONFIRM $m: ctest_with_patch_ok=$t_ok demo_rc_with_patch=$rc_mut demo_rc_clean=$rc_clean"
