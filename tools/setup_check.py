#!/usr/bin/env python3
"""setup_cmd: nothing is pre-built (every check regenerates IR, C and formulas from /repo);
this only verifies that the offline tool chain the checks need is present."""
import shutil, sys, subprocess
need = ['clang++-14', 'llvm-link-14', 'opt-14', 'cbmc', 'gcc', 'g++', 'python3']
miss = [t for t in need if not shutil.which(t)]
if miss:
    print('missing tools: ' + ' '.join(miss)); sys.exit(1)
print('tool chain ok: ' + subprocess.run(['cbmc', '--version'], capture_output=True, text=True).stdout.strip())
