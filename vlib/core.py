"""Engine E1 (irsym): real libCSD functions -> LLVM IR -> C -> cbmc, per obligation.

One obligation = one harness entry x one parameter vector.  Everything is regenerated
from /repo's working tree on every run.
"""
import os, re, sys, json, time, shutil, subprocess, threading, hashlib, resource, signal

VERIF = os.path.dirname(os.path.dirname(os.path.abspath(__file__)))
REPO = os.environ.get('VERIF_REPO', '/repo')
RT = os.path.join(VERIF, 'rt')
GUARD = 'LIBCSD_VERIF'
CLANG = 'clang++-14'
LLVM_LINK = 'llvm-link-14'
OPT = 'opt-14'

INCLUDES = ['-I' + REPO, '-I' + os.path.join(REPO, 'libcds/includes'), '-I' + RT]
IRFLAGS_O1 = ['-std=c++17', '-O1', '-fno-inline', '-I' + os.path.join(VERIF, 'harness'), '-fno-vectorize', '-fno-slp-vectorize', '-fno-unroll-loops', '-w', '-S', '-emit-llvm']
IRFLAGS_INL = ['-std=c++17', '-O1', '-fno-vectorize', '-fno-slp-vectorize', '-fno-unroll-loops', '-w', '-S', '-emit-llvm']
IRFLAGS_O0 = ['-std=c++17', '-O0', '-Xclang', '-disable-O0-optnone', '-w', '-S', '-emit-llvm']

CBMC_BASE = ['--unwinding-assertions', '--drop-unused-functions', '--object-bits', '12',
             '--no-signed-overflow-check', '--no-undefined-shift-check', '--trace', '--verbosity', '8']

_lock = threading.Lock()
_built = {}          # cache key -> (event, result)


def run(cmd, timeout=None, cwd=None, mem_gb=None, env=None):
    """run a command; returns (rc, stdout, stderr, wall_s, maxrss_kb); rc None on timeout"""
    def pre():
        os.setsid()
        if mem_gb:
            lim = int(mem_gb * (1 << 30))
            resource.setrlimit(resource.RLIMIT_AS, (lim, lim))
    t0 = time.time()
    p = subprocess.Popen(cmd, stdout=subprocess.PIPE, stderr=subprocess.PIPE, cwd=cwd, preexec_fn=pre, env=env)
    try:
        out, err = p.communicate(timeout=timeout)
        rc = p.returncode
    except subprocess.TimeoutExpired:
        try: os.killpg(p.pid, signal.SIGKILL)
        except Exception: pass
        out, err = p.communicate()
        rc = None
    wall = time.time() - t0
    try:
        ru = resource.getrusage(resource.RUSAGE_CHILDREN).ru_maxrss
    except Exception:
        ru = 0
    return rc, out.decode('utf-8', 'replace'), err.decode('utf-8', 'replace'), wall, ru


def once(key, fn):
    """build-cache: compute fn() once per key per process, other threads wait"""
    with _lock:
        ent = _built.get(key)
        if ent is None:
            ent = [threading.Event(), None]
            _built[key] = ent
            owner = True
        else:
            owner = False
    if owner:
        try:
            ent[1] = ('ok', fn())
        except Exception as e:           # noqa
            ent[1] = ('err', e)
        ent[0].set()
    else:
        ent[0].wait()
    if ent[1][0] == 'err':
        raise ent[1][1]
    return ent[1][1]


class BuildError(Exception):
    pass


def dflags(d):
    return ['-D%s=%s' % (k, v) if v is not None else '-D%s' % k for k, v in sorted(d.items())]


def keyof(*parts):
    return hashlib.sha1(repr(parts).encode()).hexdigest()[:12]


def stub_names():
    """functions defined by rt/stubs.c (the environment model)"""
    txt = open(os.path.join(RT, 'stubs.c')).read()
    names = set(re.findall(r'^[A-Za-z_][A-Za-z0-9_ \*]*?[ \*]([A-Za-z_][A-Za-z0-9_]*)\s*\([^;{]*\)\s*\{', txt, re.M))
    return names


class Obligation:
    def __init__(self, name, prop, harness, entry, tus, defs=None, libdefs=None, cdefs=None, unwind=8, unwindset=None,
                 tier='quick', timeout=240, mem_gb=3, pipeline='O1', kf=None, solver=None, extra_stub=None, note='', bounds='',
                 seltest=True, cbmc_extra=None, extra_c=None, engine='E1', e2_setup=None):
        self.name = name; self.prop = prop; self.harness = harness; self.entry = entry; self.tus = list(tus)
        self.defs = dict(defs or {}); self.libdefs = dict(libdefs or {}); self.cdefs = dict(cdefs or {})
        self.unwind = unwind; self.unwindset = dict(unwindset or {}); self.tier = tier; self.timeout = timeout
        self.mem_gb = mem_gb; self.pipeline = pipeline; self.kf = kf; self.solver = solver
        self.extra_stub = list(extra_stub or []); self.note = note; self.bounds = bounds; self.seltest = seltest
        self.cbmc_extra = list(cbmc_extra or []); self.extra_c_files = list(extra_c or []); self.engine = engine; self.e2_setup = e2_setup


class Runner:
    def __init__(self, workdir, kf_active=0, log=None):
        self.work = workdir
        self.kf_active = kf_active
        os.makedirs(workdir, exist_ok=True)
        self.stubs = stub_names()
        self.log = log or (lambda s: None)

    # ------------------------------------------------------------------ IR
    def ir_of(self, src, defs, pipeline):
        """LLVM IR of one source file (absolute path) under defines; cached per run"""
        key = keyof('ir', src, sorted(defs.items()), pipeline)
        def build():
            out = os.path.join(self.work, '_ir', key + '_' + os.path.basename(src) + '.ll')
            os.makedirs(os.path.dirname(out), exist_ok=True)
            flags = {'O1': IRFLAGS_O1, 'inl': IRFLAGS_INL, 'typed': IRFLAGS_O0}[pipeline]
            cmd = [CLANG] + flags + INCLUDES + ['-D' + GUARD] + dflags(defs) + [src, '-o', out]
            rc, so, se, w, _ = run(cmd, timeout=300)
            if rc != 0:
                raise BuildError('clang failed on %s:\n%s' % (src, se[-3000:]))
            if pipeline == 'typed':
                out2 = out[:-3] + '.opt.ll'
                rc, so, se, w, _ = run([OPT, '-S', '-passes=sroa,mem2reg,simplifycfg', out, '-o', out2], timeout=300)
                if rc != 0:
                    raise BuildError('opt failed on %s:\n%s' % (src, se[-2000:]))
                out = out2
            return out
        return once(key, build)

    def native_obj(self, src, defs, san):
        key = keyof('obj', src, sorted(defs.items()), san)
        def build():
            out = os.path.join(self.work, '_obj', key + '_' + os.path.basename(src) + '.o')
            os.makedirs(os.path.dirname(out), exist_ok=True)
            flags = ['-std=c++17', '-O1', '-g', '-w', '-c', '-I' + os.path.join(VERIF, 'harness')]
            if san:
                flags += ['-fsanitize=address,undefined', '-fno-omit-frame-pointer']
            cmd = ['g++'] + flags + INCLUDES + ['-D' + GUARD] + dflags(defs) + [src, '-o', out]
            rc, so, se, w, _ = run(cmd, timeout=600)
            if rc != 0:
                raise BuildError('g++ failed on %s:\n%s' % (src, se[-3000:]))
            return out
        return once(key, build)

    def native_bin(self, ob, san, kf_confirm=0):
        """g++ build of the harness against the real libCSD sources"""
        d = self.odir(ob)
        out = os.path.join(d, 'native_san' if san else 'native')
        if kf_confirm: out += '_kfc'
        objs = [self.native_obj(os.path.join(REPO, t), ob.libdefs, san) for t in ob.tus]
        hd = dict(ob.libdefs); hd.update(ob.defs); hd['VERIF_ENTRY'] = ob.entry
        hobj = self.native_obj(os.path.join(VERIF, 'harness', ob.harness), hd, san)
        rd = {'VERIF_KF_ACTIVE': '%du' % self.kf_active, 'VERIF_KF_CONFIRM': '%du' % kf_confirm, 'VERIF_ENTRY': ob.entry}
        robj = self.native_obj(os.path.join(RT, 'native_rt.cpp'), rd, san)
        for cf in ob.extra_c_files:
            key = keyof('cobj', cf, san)
            def bc(cf=cf, key=key):
                o = os.path.join(self.work, '_obj', key + '_' + cf + '.o')
                os.makedirs(os.path.dirname(o), exist_ok=True)
                rc, so, se, w, _ = run(['gcc', '-O1', '-w', '-c', '-I' + RT, os.path.join(VERIF, 'harness', cf), '-o', o] + (['-fsanitize=address,undefined'] if san else []), timeout=120)
                if rc != 0: raise BuildError('gcc failed on %s: %s' % (cf, se[-1000:]))
                return o
            objs = objs + [once(key, bc)]
        base = ['g++', '-o', out, hobj, robj] + objs + (['-fsanitize=address,undefined'] if san else []) + ['-lpthread', '-Wl,--no-demangle']
        rc, so, se, w, _ = run(base, timeout=300)
        if rc != 0:
            # kinds the harness never calls (e.g. the generic loader's other cases) are not linked in: give the
            # missing symbols weak definitions that abort if ever reached
            syms = sorted(set(re.findall(r"undefined reference to `([^']+)'", se)))
            if not syms:
                raise BuildError('native link failed:\n%s' % se[-3000:])
            asm = out + '_weak.s'
            with open(asm, 'w') as f:
                f.write('.text\n')
                for sy in syms: f.write('.weak %s\n%s:\n' % (sy, sy))
                f.write('  call abort\n')
            rc, so, se, w, _ = run(base + [asm], timeout=300)
            if rc != 0:
                raise BuildError('native link failed:\n%s' % se[-3000:])
        return out

    def odir(self, ob):
        d = os.path.join(self.work, ob.name)
        os.makedirs(d, exist_ok=True)
        return d

    # ------------------------------------------------------------------ translate
    def translate(self, ob):
        d = self.odir(ob)
        hd = dict(ob.libdefs); hd.update(ob.defs)
        lls = [self.ir_of(os.path.join(VERIF, 'harness', ob.harness), hd, ob.pipeline)]
        lls += [self.ir_of(os.path.join(REPO, t), ob.libdefs, ob.pipeline) for t in ob.tus]
        mll = os.path.join(d, 'm.ll')
        rc, so, se, w, _ = run([LLVM_LINK, '-S'] + lls + ['-o', mll], timeout=120)
        if rc != 0:
            raise BuildError('llvm-link failed:\n%s' % se[-2000:])
        mc = os.path.join(d, 'm.c'); rep = os.path.join(d, 'rep.json')
        deff = os.path.join(d, 'defined.txt')
        defined = set(self.stubs)
        for cf in ob.extra_c_files:
            txt = open(os.path.join(VERIF, 'harness', cf)).read()
            defined |= set(re.findall(r'^[A-Za-z_][A-Za-z0-9_ \*]*?[ \*]([A-Za-z_][A-Za-z0-9_]*)\s*\([^;{]*\)\s*\{', txt, re.M))
        open(deff, 'w').write('\n'.join(sorted(defined)) + '\n')
        cmd = [sys.executable, os.path.join(VERIF, 'ir2c.py'), mll, '-o', mc, '--entry', ob.entry, '--report', rep, '--defined', deff]
        for s in ob.extra_stub: cmd += ['--stub', s]
        rc, so, se, w, _ = run(cmd, timeout=300)
        if rc != 0:
            raise BuildError('ir2c failed:\n%s' % se[-3000:])
        r = json.load(open(rep))
        from ir2c import LIBC
        return mc, r, []

    # ------------------------------------------------------------------ self test
    def selftest(self, ob, mc, nseeds=40):
        d = self.odir(ob)
        cbin = os.path.join(d, 'st_c')
        cmd = ['gcc', '-O1', '-w', '-falign-functions=16', '-I' + RT, '-DVERIF_ENTRY=' + ob.entry, '-DVERIF_KF_ACTIVE=%du' % self.kf_active] + dflags(ob.cdefs) + \
              [mc, os.path.join(RT, 'stubs.c')] + [os.path.join(VERIF, 'harness', s) for s in ob.extra_c()] + ['-lm', '-o', cbin]
        rc, so, se, w, _ = run(cmd, timeout=300)
        if rc != 0:
            return dict(status='build-failed', detail=se[-1500:])
        nbin = self.native_bin(ob, san=False)
        agree = 0; stopped = 0; abnormal = 0; mism = []
        for seed in range(1, nseeds + 1):
            r1 = run([cbin, str(seed)], timeout=20)
            r2 = run([nbin, 'selftest', str(seed)], timeout=20)
            a1 = r1[0] != 0; a2 = r2[0] != 0
            if a1 or a2:
                abnormal += 1
                # abnormal termination on either side: compare the log prefix only
                l1 = [l for l in r1[1].split('\n') if l[:2] in ('A ', 'O ')]
                l2 = [l for l in r2[1].split('\n') if l[:2] in ('A ', 'O ')]
                n = min(len(l1), len(l2))
                if l1[:n] != l2[:n]: mism.append(seed)
                continue
            f1 = [l for l in r1[1].split('\n') if l[:2] in ('A ', 'O ') or l in ('END', 'ASSUME-STOP')]
            f2 = [l for l in r2[1].split('\n') if l[:2] in ('A ', 'O ') or l in ('END', 'ASSUME-STOP')]
            if f1 != f2:
                mism.append(seed)
            else:
                agree += 1
                if 'ASSUME-STOP' in r1[1]: stopped += 1
        return dict(status='ok' if not mism else 'mismatch', vectors=nseeds, agree=agree, completed=agree - stopped,
                    abnormal=abnormal, mismatch_seeds=mism[:5])

    # ------------------------------------------------------------------ cbmc
    def loops(self, ob, mc):
        cmd = ['cbmc', mc, os.path.join(RT, 'stubs.c')] + [os.path.join(VERIF, 'harness', s) for s in ob.extra_c()] + \
              ['-I' + RT, '--function', ob.entry, '--show-loops', '--drop-unused-functions'] + dflags(ob.cdefs)
        rc, so, se, w, _ = run(cmd, timeout=120)
        return re.findall(r'^Loop ([^\s:]+):', so, re.M)

    def loops_cmd(self, cmd0):
        rc, so, se, w, _ = run(cmd0 + ['--show-loops', '--drop-unused-functions'], timeout=180)
        return re.findall(r'^Loop ([^\s:]+):', so, re.M)

    def cbmc(self, ob, mc, kf_confirm=0, tag=''):
        d = self.odir(ob)
        cd = dict(ob.cdefs); cd['VERIF_KF_ACTIVE'] = '%du' % self.kf_active; cd['VERIF_KF_CONFIRM'] = '%du' % kf_confirm
        cmd = ['cbmc', mc, os.path.join(RT, 'stubs.c')] + [os.path.join(VERIF, 'harness', s) for s in ob.extra_c()] + \
              ['-I' + RT, '--function', ob.entry, '--unwind', str(ob.unwind)] + CBMC_BASE + dflags(cd) + ob.cbmc_extra
        if ob.unwindset:
            ls = self.loops(ob, mc)
            usd = {}
            for pat, n in ob.unwindset.items():          # later patterns override earlier ones
                rx = re.compile(pat)
                for l in ls:
                    if rx.search(l): usd[l] = n
            if usd: cmd += ['--unwindset', ','.join('%s:%d' % kv for kv in usd.items())]
        if ob.solver == 'kissat': cmd += ['--external-sat-solver', 'kissat']
        elif ob.solver == 'cadical': cmd += ['--sat-solver', 'cadical']
        rc, so, se, w, rss = run(cmd, timeout=ob.timeout * float(os.environ.get('VERIF_TIMEOUT_SCALE', '1')), mem_gb=max(ob.mem_gb * 3, 12))
        open(os.path.join(d, 'cbmc%s.out' % tag), 'w').write('CMD: ' + ' '.join(cmd) + '\n' + so + '\n--- stderr ---\n' + se)
        res = dict(cmd=' '.join(cmd), wall_s=round(w, 1), rc=rc)
        if rc is None:
            res['status'] = 'timeout'; return res
        m = re.search(r'(\d+) variables, (\d+) clauses', so)
        if m: res['sat_vars'] = int(m.group(1)); res['sat_clauses'] = int(m.group(2))
        m = re.search(r'Runtime decision procedure: ([\d.]+)s', so)
        if m: res['solver_s'] = float(m.group(1))
        st = [float(x) for x in re.findall(r'Runtime Solver: ([\d.]+)s', so)]
        if st: res['solver_s'] = round(sum(st), 2)
        props = re.findall(r'^\[([^\]]+)\] (?:line \d+ )?(.*): (SUCCESS|FAILURE|UNKNOWN|ERROR)$', so, re.M)
        # a verdict exists only if cbmc itself says so: exit 0 + VERIFICATION SUCCESSFUL, or exit 10 + VERIFICATION FAILED;
        # anything else (VERIFICATION ERROR, solver out of memory, properties left in state ERROR/UNKNOWN) is no verdict
        ok_pass = rc == 0 and 'VERIFICATION SUCCESSFUL' in so
        ok_fail = rc == 10 and 'VERIFICATION FAILED' in so
        # cbmc 6 treats its generated checks (pointer dereference, division by zero, ...) as fatal: properties that lie
        # behind a FAILED fatal check are reported UNKNOWN.  A run with an explicit FAILED verdict and at least one
        # FAILURE of a real property (each comes with a solver trace and is replayed natively) is a counterexample;
        # UNKNOWN only blocks a PASS verdict.  ERROR (solver out of memory) never gives a verdict.
        has_err = any(r_ == 'ERROR' for _, _, r_ in props)
        has_unk = any(r_ == 'UNKNOWN' for _, _, r_ in props)
        real_fail = any(r_ == 'FAILURE' and 'VERIF witness' not in d_ for _, d_, r_ in props)
        cex = ok_fail and real_fail and not has_err
        if not cex and (props and not (ok_pass or ok_fail) or has_err or has_unk):
            res['status'] = 'oom' if ('out of memory' in (so + se).lower() or 'bad_alloc' in (so + se)) else 'error'
            res['detail'] = 'cbmc returned no verdict (rc=%s): %s' % (rc, ' '.join(l for l in so.split('\n') if 'ERROR' in l or 'memory' in l.lower())[:300])
            return res
        if 'VERIFICATION' not in so or not props:
            res['status'] = 'error'
            res['detail'] = (so[-1500:] + se[-1500:])
            if 'out of memory' in (so + se).lower() or 'bad_alloc' in (so + se): res['status'] = 'oom'
            return res
        res['properties_checked'] = len(props)
        failed = [(pid, desc) for pid, desc, r in props if r == 'FAILURE']
        res['witness_reached'] = any('VERIF witness' in desc for pid, desc in failed)
        real = [(pid, desc) for pid, desc in failed if 'VERIF witness' not in desc]
        res['failed'] = [dict(id=pid, desc=desc) for pid, desc in real]
        # traces
        traces = {}
        parts = re.split(r'^Trace for ([^\s:]+):\s*$', so, flags=re.M)
        for i in range(1, len(parts) - 1, 2):
            traces[parts[i]] = parts[i + 1]
        res['_traces'] = traces
        res['status'] = 'fail' if real else 'pass'
        return res

    @staticmethod
    def trace_inputs(trace):
        vals = [int(v) for v in re.findall(r'^\s*verif_nd_log=(\d+)', trace, re.M)]
        fid = re.findall(r'^\s*verif_failed_id=(\d+)', trace, re.M)
        return vals, (int(fid[-1]) if fid else None)

    def replay(self, ob, vals, path, kf_confirm=0):
        with open(path, 'w') as f:
            f.write('# replay for obligation %s entry %s\n' % (ob.name, ob.entry))
            f.write('# defs %s libdefs %s\n' % (json.dumps(ob.defs), json.dumps(ob.libdefs)))
            for v in vals: f.write('%d\n' % v)
        nbin = self.native_bin(ob, san=True, kf_confirm=kf_confirm)
        env = dict(os.environ); env['ASAN_OPTIONS'] = 'detect_leaks=0:abort_on_error=0:exitcode=66'; env['UBSAN_OPTIONS'] = 'print_stacktrace=0'
        rc, so, se, w, _ = run([nbin, 'replay', path], timeout=30, env=env)
        r = dict(rc=rc, stdout=so[-600:], stderr=se[-1500:])
        if rc is None: r['outcome'] = 'confirmed'; r['how'] = 'native run does not terminate (30 s)'
        elif 'REPLAY-ASSUME-VIOLATED' in so: r['outcome'] = 'unconfirmed'; r['how'] = 'counterexample violates a harness assumption natively'
        elif 'REPLAY-ASSERT-FAILED' in so: r['outcome'] = 'confirmed'; r['how'] = so.strip().split('\n')[-1]
        elif 'AddressSanitizer' in se: r['outcome'] = 'confirmed'; r['how'] = 'AddressSanitizer: ' + (re.search(r'ERROR: AddressSanitizer: ([^\n]*)', se) or [0, '?'])[1]
        elif rc == 0: r['outcome'] = 'unconfirmed'; r['how'] = 'native run completes without failure'
        elif rc in (126, 127, 5): r['outcome'] = 'unconfirmed'; r['how'] = 'replay binary could not be run (machinery error): ' + se[-200:]
        elif rc < 0 or rc in (134, 139, 66): r['outcome'] = 'confirmed'; r['how'] = 'native run crashes (rc %s) %s' % (rc, se.strip().split('\n')[-1][:200] if se.strip() else '')
        else: r['outcome'] = 'confirmed'; r['how'] = 'native run fails rc=%s %s' % (rc, (se.strip().split('\n')[-1][:200] if se.strip() else ''))
        return r


def _extra_stub_defined(self):
    return set(self.extra_stub)
def _extra_c(self):
    return getattr(self, 'extra_c_files', [])
Obligation.extra_stub_defined = _extra_stub_defined
Obligation.extra_c = _extra_c
