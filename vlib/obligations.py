"""Obligation tables: which harness entries, parameter vectors and bounds decide each property."""
from .core import Obligation

ALL_PROPS = ['C%02d' % i for i in range(1, 21)]
E2_PROPS = ('C09', 'C10', 'C11')

PFC_TUS = ['StringDictionaryPFC.cpp', 'StringDictionary.cpp', 'utils/LogSequence.cpp', 'utils/VByte.cpp']
CODEC_TUS = ['utils/LogSequence.cpp', 'utils/VByte.cpp']


def O(name, prop, harness, entry, tus, **kw):
    return Obligation(name, prop, harness, entry, tus, **kw)


def pfc_caps(n, l, bs, memalloc):
    """allocation case-split caps derived from the stated bounds (checked by assertion, not assumed)"""
    bs = max(bs, 2)
    reserved = memalloc * bs
    total = n * (l + 2)
    while reserved < total + 2 * l: reserved *= 2
    maxbytes = max(reserved, n * (l + 1), l + 2)
    entries = (n + bs - 1) // bs + 2
    cap = 1
    while cap < entries: cap *= 2
    return {'IR2C_MAXBYTES': maxbytes, 'IR2C_MAXELEMS': max(cap, 2)}


def pfc(name, prop, entry, n, l, bs, unwind=None, memalloc=None, maxbytes=None, **kw):
    """PFC whole-kind obligation.  memalloc=None: the MEMALLOC hook is set so that the text buffer never has to
    grow (growth is decided by the dedicated C07 obligations, which pass memalloc explicitly)."""
    defs = {'NSTR': n, 'LMAX': l, 'BS': bs}
    defs.update(kw.pop('defs', {}))
    # image: 32-byte header + text (<= n*(l+2)) + LogSequence (9 + 8*words)
    defs.setdefault('VS_BOUND', 32 + n * (l + 2) + 9 + 16)
    bss = [max(bs, 2)] + ([max(defs['BS2'], 2)] if 'BS2' in defs else [])
    grow = memalloc is not None
    if memalloc is None:
        memalloc = max(-(-(n * (l + 2) + 2 * l) // min(bss)), 2)
    caps = [pfc_caps(n, l, b, memalloc) for b in bss]
    cdefs = {k: max(c[k] for c in caps) for k in caps[0]}
    if maxbytes: cdefs['IR2C_MAXBYTES'] = maxbytes
    cdefs['VS_CAP'] = defs['VS_BOUND']
    cdefs.update(kw.pop('cdefs', {}))
    kw.setdefault('timeout', 240)
    us = {'^(h_|_ZL)': (n + 2) * (l + 4), '_ZSt14__relocate': cdefs['IR2C_MAXELEMS'] + 1, '_ZNSo5write': cdefs['IR2C_MAXBYTES'] + 1, '_ZNSi4read': cdefs['IR2C_MAXBYTES'] + 1, 'verif_stream_equal': defs['VS_BOUND'] + 1}
    if grow:
        us['_Z10ReallocatePPhm'] = cdefs['IR2C_MAXBYTES'] + 1
        us['_ZN19StringDictionaryPFCC2'] = n + 3
    us.update(kw.pop('unwindset', {}))
    return O(name, prop, 'h_pfc.cpp', entry, PFC_TUS, defs=defs, libdefs={'LIBCSD_VERIF_MEMALLOC': memalloc}, cdefs=cdefs,
             unwind=unwind or max(n + 2, l + 3), unwindset=us,
             bounds='%d strings x 1..%d bytes over 0x02..0xFE (all sorted sets), bucketsize %s, MEMALLOC hook %d%s' %
                    (n, l, bs, memalloc, ' (buffer growth exercised)' if grow else ''), **kw)


BITSEQ_TUS = ['libcds/src/bitsequence/BitSequence.cpp', 'libcds/src/bitsequence/BitSequenceRG.cpp', 'libcds/src/utils/BitString.cpp', 'libcds/src/utils/cppUtils.cpp']
DAC_TUS = ['utils/DAC_VLS.cpp', 'utils/DAC_BVLS.cpp'] + BITSEQ_TUS
BITSEQ_STUBS = ['_ZN10cds_static14BitSequenceRRR4loadERSi', '_ZN10cds_static18BitSequenceSDArray4loadERSi', '_ZN10cds_static17BitSequenceDArray4loadERSi']


def unit(name, prop, entry, tus, **kw):
    kw.setdefault('extra_stub', BITSEQ_STUBS)
    kw.setdefault('extra_c', ['stub_bitseq_loaders.c'])
    return O(name, prop, 'h_units.cpp', entry, tus, **kw)


CSD_TUS = """StringDictionary.cpp StringDictionaryFMINDEX.cpp StringDictionaryHASHHF.cpp StringDictionaryHASHRPDAC.cpp StringDictionaryHASHRPF.cpp
StringDictionaryHASHUFFDAC.cpp StringDictionaryHHTFC.cpp StringDictionaryHTFC.cpp StringDictionaryPFC.cpp StringDictionaryRPDAC.cpp StringDictionaryRPFC.cpp
StringDictionaryRPHTFC.cpp StringDictionaryXBW.cpp FMIndex/SSA.cpp FMIndex/SuffixArray.cpp Hash/HashBBdh.cpp Hash/HashBdh.cpp Hash/Hash.cpp Hash/HashDAC.cpp Hash/Hashdh.cpp
Huffman/huff.cpp Huffman/Huffman.cpp HuTucker/HuTucker.cpp RePair/RePair.cpp utils/DAC_BVLS.cpp utils/DAC_VLS.cpp utils/LogSequence.cpp utils/VByte.cpp
utils/Coder/BinaryNode.cpp utils/Coder/Coder.cpp utils/Coder/DecodingTableBuilder.cpp utils/Coder/DecodingTable.cpp utils/Coder/DecodingTree.cpp utils/Coder/StatCoder.cpp
XBW/TrieNode.cpp XBW/XBW.cpp""".split() + BITSEQ_TUS

KINDS = {
    # kind: (class, tag constant, loader call, unsupported-operation flags)
    'PFC': ('StringDictionaryPFC', 'PFC', None, ['NO_SUBSTR']),
    'RPFC': ('StringDictionaryRPFC', 'RPFC', None, ['NO_SUBSTR']),
    'HTFC': ('StringDictionaryHTFC', 'HTFC', None, ['NO_SUBSTR']),
    'HHTFC': ('StringDictionaryHHTFC', 'HHTFC', None, ['NO_SUBSTR']),
    'RPHTFC': ('StringDictionaryRPHTFC', 'RPHTFC', None, ['NO_SUBSTR']),
    'RPDAC': ('StringDictionaryRPDAC', 'RPDAC', None, ['NO_SUBSTR']),
    'HASHHF': ('StringDictionaryHASHHF', 'HASHHF', 'KIND::load(in, HASHUFF)', ['NO_PREFIX', 'NO_SUBSTR', 'NO_RANK']),
    'HASHRPF': ('StringDictionaryHASHRPF', 'HASHRPF', 'KIND::load(in, HASHRP)', ['NO_PREFIX', 'NO_SUBSTR', 'NO_RANK']),
    'HASHUFFDAC': ('StringDictionaryHASHUFFDAC', 'HASHUFFDAC', None, ['NO_PREFIX', 'NO_SUBSTR', 'NO_RANK']),
    'HASHRPDAC': ('StringDictionaryHASHRPDAC', 'HASHRPDAC', 'KIND::load(in, 0)', ['NO_PREFIX', 'NO_SUBSTR', 'NO_RANK']),
    'FMINDEX': ('StringDictionaryFMINDEX', 'FMINDEX', None, []),
    'XBW': ('StringDictionaryXBW', 'DXBW', None, ['NO_TABLE']),
}


def kind_ob(name, prop, entry, kind, flags=(), **kw):
    cls, tag, lc, _ = KINDS[kind]
    defs = {'KIND': cls, 'KTAG': tag}
    if lc: defs['LOADCALL(in)'] = lc
    for f in flags: defs[f] = None
    kw.setdefault('unwind', 2)
    kw.setdefault('cdefs', {'IR2C_MAXBYTES': 16, 'IR2C_MAXELEMS': 4, 'VS_CAP': 32})
    kw.setdefault('extra_stub', BITSEQ_STUBS)
    kw.setdefault('extra_c', ['stub_bitseq_loaders.c'])
    kw.setdefault('unwindset', {'^(h_|_ZL)': 40, 'verif_stream': 40, '_ZNSi4read': 9, '_ZNSo5write': 9})
    return O(name, prop, 'h_kinds.cpp', entry, CSD_TUS, defs=defs, bounds='kind %s, default-constructed object with symbolic element count' % kind, **kw)



import itertools

Q = 'quick'; T = 'thorough'


def shapes(n, l):
    return [list(x) for x in itertools.product(range(1, l + 1), repeat=n)]


def lenv(sh):
    return '{' + ','.join(str(x) for x in sh) + '}'


QUICK_SHAPES3 = [[2, 2, 2], [1, 2, 2], [2, 1, 2], [1, 2, 1]]


def pfc_family(prop, tag, entry, quick_bs=(2, 3), timeout_q=420, timeout_t=1500, extra_defs=None, quick_shapes=None, sym_n2=True, thorough_extra=True, deep4=False, n5=True, **kw):
    """the standard parameter sweep of one PFC harness entry:
       quick   : N=2 symbolic lengths (all shapes) + selected N=3 shapes, bucket sizes quick_bs
       thorough: every N=3,L=2 shape x bucketsize {2,3,4}; N=4,L=2 shapes; N=3,L=3 shapes; N=5,L=1"""
    obs = []
    ed = dict(extra_defs or {})
    def mk(name, n, l, bs, sh, tier, timeout):
        dd = dict(ed)
        if sh is not None: dd['LENV'] = lenv(sh)
        obs.append(pfc('%s.%s.n%d%s.bs%d' % (prop.lower(), tag, n, ('.len' + ''.join(map(str, sh))) if sh else 'l%d' % l, bs), prop, entry, n, l, bs,
                       defs=dd, tier=tier, timeout=timeout, **kw))
    if sym_n2:
        mk(tag, 2, 2, 2, None, Q, timeout_q)
    for sh in (quick_shapes or QUICK_SHAPES3):
        for bs in quick_bs:
            mk(tag, 3, 2, bs, sh, Q, timeout_q)
    if deep4:
        mk(tag, 4, 2, 4, [2, 2, 2, 2], Q, max(timeout_q, 900))      # one bucket of four: deepest in-bucket scan of the quick tier
    if thorough_extra:
        for sh in shapes(3, 2):
            for bs in (2, 3, 4):
                if sh in (quick_shapes or QUICK_SHAPES3) and bs in quick_bs: continue
                mk(tag, 3, 2, bs, sh, T, timeout_t)
        for sh in [[2, 2, 2, 2], [1, 2, 2, 1], [2, 1, 2, 2], [1, 1, 2, 2], [1, 2, 2, 2]]:
            for bs in (2, 3, 4, 5):
                if sh == [2, 2, 2, 2] and bs == 4 and deep4: continue
                mk(tag, 4, 2, bs, sh, T, timeout_t)
        for sh in [[3, 3, 3], [1, 2, 3], [3, 1, 2]]:
            mk(tag, 3, 3, 2, sh, T, timeout_t)
        if n5: mk(tag, 5, 1, 2, [1, 1, 1, 1, 1], T, timeout_t)
    return obs


def dac_obs(prop, what=('access', 'saveload'), tier_all=False):
    obs = []
    c = {'IR2C_MAXBYTES': 16, 'IR2C_MAXELEMS': 8, 'VS_CAP': 96}
    us = {'^(h_|_ZL)': 30, '_ZNSo5write': 33, '_ZNSi4read': 33, 'verif_stream_equal': 97}
    # (sequence lengths, max_seq_length): last sequence of one symbol, of maximal length, all of length one ...
    cfgs = [([2, 1], 2, Q), ([1, 1], 1, Q), ([1, 2], 2, Q), ([2, 2], 2, T), ([3, 1, 2], 3, T), ([1, 3, 1], 3, T), ([1, 1, 1], 1, T), ([2, 3, 3], 3, T)]
    for lens, mx, tier in cfgs:
        d = {'NSEQ': len(lens), 'SEQLENS': lenv(lens), 'MAXSEQ': mx, 'VS_BOUND': 96}
        nm = ''.join(map(str, lens))
        if 'access' in what:
            obs.append(unit('%s.dacvls.access.len%s' % (prop.lower(), nm), prop, 'h_dacvls_access', DAC_TUS, defs=d, cdefs=c, unwind=8, unwindset=us, tier=tier,
                            bounds='%d sequences of lengths %s (4-bit symbols symbolic), list length as the dictionary constructors compute it' % (len(lens), lens)))
            obs.append(unit('%s.dacvls.access.len%s.fulllist' % (prop.lower(), nm), prop, 'h_dacvls_access', DAC_TUS, defs=dict(d, DACLEN='(ic)'), cdefs=c, unwind=8, unwindset=us, tier=T,
                            bounds='same, list length including the final marker'))
        if 'saveload' in what:
            obs.append(unit('%s.dacvls.saveload.len%s' % (prop.lower(), nm), prop, 'h_dacvls_saveload', DAC_TUS, defs=d, cdefs=c, unwind=8, unwindset=us, tier=tier, timeout=600,
                            bounds='%d sequences of lengths %s; save, save, load, save' % (len(lens), lens)))
        if 'bvls' in what:
            obs.append(unit('%s.dacbvls.len%s' % (prop.lower(), nm), prop, 'h_dacbvls', DAC_TUS, defs=dict(d, BVLS_SAVE=None), cdefs=c, unwind=8, unwindset=us, tier=tier, timeout=600,
                            bounds='%d byte sequences of lengths %s (bytes symbolic), public constructor as HASHUFFDAC calls it' % (len(lens), lens)))
    return obs


def bitseq_obs(prop, parts=(1, 2, 3, 4), saveload=True):
    obs = []
    c = {'IR2C_MAXBYTES': 16, 'IR2C_MAXELEMS': 8, 'VS_CAP': 96}
    for nb, fa, tier in [(33, 4, Q), (65, 2, Q), (32, 1, Q), (1, 20, Q), (31, 4, T), (64, 2, T), (70, 1, T), (65, 20, T), (33, 2, T)]:
        us = {'^(h_|_ZL)': 2 * nb + 40, '_ZNSo5write': 33, '_ZNSi4read': 33, 'verif_stream_equal': 97}
        for part in parts:
            b = {'NBITS': nb, 'FACTOR': fa, 'VS_BOUND': 96, 'PART': part}
            obs.append(unit('%s.bitseqrg.n%d.f%d.p%d' % (prop.lower(), nb, fa, part), prop, 'h_bitseqrg', BITSEQ_TUS, defs=b, cdefs=c, unwind=10, unwindset=us, solver='kissat', tier=tier,
                            timeout=600, bounds='all bitmaps of %d bits, sampling factor %d, clause %d (1 access/rank, 2 select1, 3 select0, 4 selectNext1)' % (nb, fa, part)))
        if saveload:
            b = {'NBITS': nb, 'FACTOR': fa, 'VS_BOUND': 96, 'PART': 1}
            obs.append(unit('%s.bitseqrg.saveload.n%d.f%d' % (prop.lower(), nb, fa), prop, 'h_bitseqrg_saveload', BITSEQ_TUS, defs=b, cdefs=c, unwind=10, unwindset=us, solver='kissat',
                            tier=tier, timeout=600, bounds='all bitmaps of %d bits, factor %d: save, save, generic load, rank/access on the loaded object, save' % (nb, fa)))
    b = {'NBITS': 33, 'FACTOR': 4, 'VS_BOUND': 96}
    obs.append(unit('%s.bitstring' % prop.lower(), prop, 'h_bitstring', BITSEQ_TUS, defs=b, cdefs=c, unwind=10, unwindset={'^(h_|_ZL)': 100, '_ZNSo5write': 33, '_ZNSi4read': 33},
                    bounds='33-bit BitString: 3 symbolic stores, read back, save/load/save'))
    return obs


def iter_obs(prop, which=('contiguous', 'duplicates', 'nocontiguous', 'stringvector')):
    c = {'IR2C_MAXBYTES': 16, 'IR2C_MAXELEMS': 8}
    return [unit('%s.it.%s' % (prop.lower(), e), prop, 'h_it_' + e, [], defs={'NIDS': 4}, cdefs=c, unwind=8, unwindset={'^h_': 20},
                 bounds='iterator over <= 4 symbolic ids / 3 symbolic strings') for e in which]


def kind_obs(prop, entries):
    obs = []
    for k in KINDS:
        if 'guard' in entries: obs.append(kind_ob('%s.guard.%s' % (prop.lower(), k.lower()), prop, 'h_kind_extract_guard', k))
        if 'unsup' in entries and KINDS[k][3]: obs.append(kind_ob('%s.unsup.%s' % (prop.lower(), k.lower()), prop, 'h_kind_unsupported', k, flags=KINDS[k][3]))
        if 'wrongtag' in entries: obs.append(kind_ob('%s.wrongtag.%s' % (prop.lower(), k.lower()), prop, 'h_kind_load_wrong_tag', k))
    if 'dispatch' in entries:
        loaders = ['_ZN22StringDictionaryHASHHF4loadERSij', '_ZN26StringDictionaryHASHUFFDAC4loadERSi', '_ZN23StringDictionaryHASHRPF4loadERSij', '_ZN25StringDictionaryHASHRPDAC4loadERSij',
                   '_ZN19StringDictionaryPFC4loadERSi', '_ZN20StringDictionaryRPFC4loadERSi', '_ZN20StringDictionaryHTFC4loadERSi', '_ZN21StringDictionaryHHTFC4loadERSi',
                   '_ZN22StringDictionaryRPHTFC4loadERSi', '_ZN21StringDictionaryRPDAC4loadERSi', '_ZN23StringDictionaryFMINDEX4loadERSi', '_ZN19StringDictionaryXBW4loadERSi']
        obs.append(O('%s.dispatch' % prop.lower(), prop, 'h_kinds.cpp', 'h_generic_dispatch', ['StringDictionary.cpp'], unwind=6, cdefs={'VS_CAP': 32}, extra_stub=loaders + ['verif_sentinel'],
                     extra_c=['stub_kind_loaders.c'], unwindset={'^(h_|_ZL)': 40}, bounds='all 2^32 type tags, all load options; kind loaders replaced by sentinels'))
    return obs


RPDAC_TUS = ['StringDictionaryRPDAC.cpp', 'StringDictionary.cpp', 'RePair/RePair.cpp', 'RePair/Coder/dictionary.cpp', 'utils/LogSequence.cpp', 'utils/VByte.cpp', 'utils/DAC_VLS.cpp'] + BITSEQ_TUS


def rpdac(name, prop, entry, n, l, rules, sh=None, tier=Q, timeout=900):
    defs = {'NSTR': n, 'LMAX': l, 'RULES': rules}
    if sh is not None: defs['LENV'] = lenv(sh)
    tot = n * (l + 1)
    cdefs = {'IR2C_MAXBYTES': 32, 'IR2C_MAXELEMS': max(16, tot + 2), 'VS_CAP': 96}
    return O(name, prop, 'h_rpdac.cpp', entry, RPDAC_TUS, defs=defs, cdefs=cdefs, unwind=max(n + 3, l + 4), tier=tier, timeout=timeout,
             unwindset={'^(h_|_ZL)': (n + 2) * (l + 4), '_ZN7IRePair8compress': 2 * tot + 4, '_ZN21StringDictionaryRPDACC2': 2 * tot + 4, '_ZN7DAC_VLSC2': 2 * tot + 4},
             bounds='RPDAC whole kind (real constructor, DAC_VLS, grammar consumer), %d strings %s over 0x02..0xFE, compressor replaced by a model grammar with %d rule(s)' %
                    (n, ('of lengths %s' % sh) if sh else ('of 1..%d bytes' % l), rules))


def rpdac_family(prop, tag, entry):
    obs = []
    obs.append(rpdac('%s.rpdac.%s.n2l2.r0' % (prop.lower(), tag), prop, entry, 2, 2, 0))
    obs.append(rpdac('%s.rpdac.%s.n2l2.r1' % (prop.lower(), tag), prop, entry, 2, 2, 1))
    obs.append(rpdac('%s.rpdac.%s.n3.len221.r1' % (prop.lower(), tag), prop, entry, 3, 2, 1, sh=[2, 2, 1]))
    for sh in [[2, 2, 2], [1, 2, 2], [1, 1, 1], [2, 1, 2]]:
        obs.append(rpdac('%s.rpdac.%s.n3.len%s.r1' % (prop.lower(), tag, ''.join(map(str, sh))), prop, entry, 3, 2, 1, sh=sh, tier=T, timeout=3600))
    obs.append(rpdac('%s.rpdac.%s.n3.len333.r1' % (prop.lower(), tag), prop, entry, 3, 3, 1, sh=[3, 3, 3], tier=T, timeout=3600))
    return obs


BLOCKS_TUS = ['StringDictionary.cpp']


def blocks_e1(name, prop, entry, n, l, tier=Q, timeout=900):
    tot = n * (l + 1)
    cdefs = {'IR2C_MAXBYTES': max(16, tot + 2), 'IR2C_MAXELEMS': 8, 'VS_CAP': 96}
    return O(name, prop, 'h_blocks.cpp', entry, BLOCKS_TUS, defs={'NSTR': n, 'LMAX': l, 'VS_BOUND': 96}, cdefs=cdefs, unwind=max(n + 3, l + 4), tier=tier, timeout=timeout,
             unwindset={'^(h_|_ZL)': (n + 2) * (l + 5), '_ZNSo5write': 33, '_ZNSi4read': 33, 'verif_stream_equal': 97},
             bounds='HASHRPDACBlocks over stand-in blocks: %d strings of 1..%d bytes over 0x02..0xFE, every cut into consecutive non-empty blocks' % (n, l))


def blocks_obs(prop, entries):
    obs = []
    for e in entries:
        obs.append(blocks_e1('%s.blocks.%s.n2l2' % (prop.lower(), e), prop, 'h_blocks_' + e, 2, 2))
        obs.append(blocks_e1('%s.blocks.%s.n3l2' % (prop.lower(), e), prop, 'h_blocks_' + e, 3, 2, tier=T, timeout=3600))
    return obs


def c01():
    obs = pfc_family('C01', 'pfc', 'h_pfc_c01', deep4=True)
    obs += pfc_family('C01', 'pfc.reload', 'h_pfc_saveload', quick_bs=(2,), quick_shapes=[[1, 2, 2]], sym_n2=False, timeout_q=600, thorough_extra=False)
    obs += dac_obs('C01', what=('access',))
    return obs


def c02():
    return pfc_family('C02', 'pfc', 'h_pfc_c02', deep4=True) + kind_obs('C02', ['guard'])


def c03():
    return pfc_family('C03', 'pfc', 'h_pfc_c03', quick_bs=(2, 3), quick_shapes=[[2, 2, 2], [1, 2, 2]], deep4=True)


def c04():
    obs = pfc_family('C04', 'pfc.ids', 'h_pfc_c04', deep4=True)
    obs += pfc_family('C04', 'pfc.strs', 'h_pfc_c04x', quick_shapes=[[2, 2, 2], [1, 2, 2]])
    obs += iter_obs('C04', which=('contiguous',))
    return obs


def pfc_header_obs(prop, generic=False):
    """header fields at full width: hand-written image with arbitrary header values (see h_pfc_header)"""
    nm = '%s.pfc.header%s' % (prop.lower(), '.generic' if generic else '')
    d = {'VS_BOUND': 34 + 9 + 8}
    if generic: d['GENERIC_LOADER'] = None
    o = pfc(nm, prop, 'h_pfc_header', 2, 1, 2, defs=d, timeout=600)
    o.bounds = 'image header with ARBITRARY elements (2^64), maxlength, buckets, bucketsize (2^32 each); 2-byte text, 2-entry offset sequence; no query issued'
    return [o]


def c06():
    obs = pfc_family('C06', 'pfc', 'h_pfc_saveload', quick_bs=(2, 3), quick_shapes=[[1, 2, 2], [2, 2, 2]], sym_n2=False, timeout_q=600)
    obs += pfc_family('C06', 'pfc.generic', 'h_pfc_saveload', quick_bs=(2,), quick_shapes=[[2, 1, 2]], sym_n2=False, timeout_q=600, extra_defs={'GENERIC_LOADER': None}, thorough_extra=False)
    obs.append(pfc('c06.pfc.twoimages.n2.len22.bs2', 'C06', 'h_pfc_two_images', 2, 2, 2, defs={'LENV': '{2,2}', 'VS_BOUND': 2 * (32 + 2 * 4 + 9 + 16)}, timeout=900))
    obs.append(pfc('c06.pfc.twoimages.n3.len122.bs2', 'C06', 'h_pfc_two_images', 3, 2, 2, defs={'LENV': '{1,2,2}', 'VS_BOUND': 2 * (32 + 3 * 4 + 9 + 16)}, tier=T, timeout=3600))
    obs += dac_obs('C06', what=('saveload', 'bvls'))
    obs += [o for o in bitseq_obs('C06', parts=()) ]
    obs += logseq_obs('C06')
    obs += kind_obs('C06', ['dispatch'])
    obs += pfc_header_obs('C06') + pfc_header_obs('C06', generic=True)
    return obs


def c07():
    obs = []
    # buffer growth: MEMALLOC hook 2..4 so that 2*len crosses the reservation exactly / by one
    # growth shapes that reach a verdict (unchanged tree: 13 min / 4 min / < 1 h); eleven larger shapes (2-4 strings with more
    # than one growth step) ran into the 1 h cap on the unchanged tree and were removed - stated in DESIGN.md 3/C07
    for sh, bs, ma, tier in [([1, 1], 2, 2, T), ([3], 2, 2, T), ([2], 2, 1, Q)]:
        n = len(sh); l = max(sh) if max(sh) > 2 else 2
        # tight byte cap: the reservation after the growth steps this shape can need (checked by the cap assertion)
        need = max(sum(x + 2 for x in sh[:i]) + 2 * sh[i] + 2 for i in range(len(sh)))
        cap = ma * max(bs, 2)
        while cap < need: cap *= 2
        obs.append(pfc('c07.pfc.grow.len%s.bs%d.m%d' % (''.join(map(str, sh)), bs, ma), 'C07', 'h_pfc_c01', n, l, bs, memalloc=ma, maxbytes=max(cap, sum(x + 1 for x in sh)), defs={'LENV': lenv(sh)}, tier=tier,
                       timeout=900 if tier == Q else 3600))
    obs += pfc_family('C07', 'pfc.hist1', 'h_pfc_c07hist', quick_bs=(2,), quick_shapes=[[1, 2, 2], [2, 2, 2]], sym_n2=False, timeout_q=900, thorough_extra=False, extra_defs={'HIST': 1})
    for sh in ([1, 2, 2], [2, 2, 2]):
        obs.append(pfc('c07.pfc.hist2.n3.len%s.bs2' % ''.join(map(str, sh)), 'C07', 'h_pfc_c07hist', 3, 2, 2, defs={'LENV': lenv(sh), 'HIST': 2}, tier=T, timeout=3600))
    obs.append(unit('c07.reallocate', 'C07', 'h_reallocate', [], defs={'RLEN': 4}, cdefs={'IR2C_MAXBYTES': 16, 'IR2C_MAXELEMS': 8}, unwind=18, bounds='Reallocate(uchar**/int**) on 4 symbolic entries'))
    obs += [o for o in dac_obs('C07', what=('access',)) if 'fulllist' not in o.name]
    obs += iter_obs('C07', which=('duplicates',))
    return obs


def c08():
    obs = pfc_family('C08', 'pfc.twice', 'h_pfc_build_twice', quick_shapes=[[2, 2, 2], [1, 2, 2]])
    obs += pfc_family('C08', 'pfc.resave', 'h_pfc_saveload', quick_bs=(2,), quick_shapes=[[2, 2, 1]], sym_n2=False, timeout_q=600, thorough_extra=False)
    obs += pfc_family('C08', 'pfc.pure', 'h_pfc_c14s', quick_bs=(2,), quick_shapes=[[1, 2, 2]], sym_n2=False, timeout_q=600, thorough_extra=False)
    obs += dac_obs('C08', what=('saveload', 'bvls'))
    obs += logseq_obs('C08')
    obs += coder_obs('C08', ('tree',))
    obs += pfc_header_obs('C08')
    return obs


def c12():
    obs = []
    for sh, b1, b2, tier in [([2, 2, 2], 2, 3, Q), ([1, 2, 2], 2, 4, Q), ([2, 1, 2], 3, 4, Q), ([1, 2, 1], 1, 2, Q), ([2, 2, 2], 0, 2, Q),
                             ([2, 2, 2], 2, 4, T), ([1, 2, 2], 2, 3, T), ([2, 2, 1], 2, 3, T), ([1, 1, 1], 2, 3, T), ([2, 2, 2, 2], 2, 3, T), ([1, 2, 2], 1, 2, T)]:
        n = len(sh)
        obs.append(pfc('c12.pfc.len%s.bs%d_vs_%d' % (''.join(map(str, sh)), b1, b2), 'C12', 'h_pfc_c12', n, 2, b1, defs={'LENV': lenv(sh), 'BS2': b2, 'C12_PREFIX': None}, tier=tier,
                       timeout=600 if tier == Q else 1500))
    return obs


def c13():
    obs = pfc_family('C13', 'pfc.table', 'h_pfc_c13')
    obs += pfc_family('C13', 'pfc.prefix', 'h_pfc_c04x', quick_bs=(2,), quick_shapes=[[2, 2, 2]], sym_n2=False, thorough_extra=False)
    obs += iter_obs('C13')
    return obs


def c14():
    obs = []
    for ka in (0, 1, 2):
        obs += pfc_family('C14', 'pfc.aba.q%d' % ka, 'h_pfc_c14', quick_bs=(2,), quick_shapes=[[1, 2, 2]] + ([[1, 2, 1]] if ka == 2 else []), sym_n2=False, timeout_q=900,
                          extra_defs={'KA': ka}, thorough_extra=(ka == 0), n5=False)
    obs += pfc_family('C14', 'pfc.state', 'h_pfc_c14s', quick_bs=(2, 3), quick_shapes=[[1, 2, 2]], sym_n2=False, timeout_q=600, thorough_extra=False)
    return obs


def c15():
    obs = pfc_family('C15', 'pfc', 'h_pfc_c01', quick_shapes=[[2, 2, 2], [1, 2, 1]])
    obs += pfc_family('C15', 'pfc.reload', 'h_pfc_saveload', quick_bs=(2,), quick_shapes=[[1, 2, 2]], sym_n2=False, timeout_q=600, thorough_extra=False)
    obs += pfc_header_obs('C15') + pfc_header_obs('C15', generic=True)
    return obs


def c16():
    obs = pfc_family('C16', 'pfc', 'h_pfc_c16', quick_bs=(2,), quick_shapes=[[1, 2, 2], [2, 2, 2]], thorough_extra=False)
    obs += kind_obs('C16', ['unsup', 'wrongtag', 'dispatch'])
    return obs


def logseq_obs(prop):
    return [O('%s.logseq.saveload.cap3' % prop.lower(), prop, 'h_codec.cpp', 'h_logseq_saveload', CODEC_TUS, defs={'CAP': 3}, unwind=5,
              unwindset={'^h_': 40, '_ZNSo5write': 34, '_ZNSi4read': 34, 'verif_stream': 40}, cdefs={'VS_CAP': 40}, bounds='width symbolic 1..64, 3 entries')]


def c17():
    obs = []
    obs.append(O('c17.vbyte.roundtrip', 'C17', 'h_codec.cpp', 'h_vbyte_roundtrip', CODEC_TUS, unwind=7, bounds='all 2^32 values'))
    obs.append(O('c17.vb2.roundtrip', 'C17', 'h_codec.cpp', 'h_vb2_roundtrip', CODEC_TUS, unwind=7, bounds='all 2^32 values'))
    obs.append(O('c17.logseq.setget.cap3', 'C17', 'h_codec.cpp', 'h_logseq_setget', CODEC_TUS, defs={'CAP': 3}, unwind=12,
                 bounds='width symbolic 1..64, 3 entries, 3 stores at symbolic positions, values symbolic < 2^w'))
    obs.append(O('c17.logseq.setget.cap5', 'C17', 'h_codec.cpp', 'h_logseq_setget', CODEC_TUS, defs={'CAP': 5}, unwind=20, tier=T, timeout=1500,
                 bounds='width symbolic 1..64, 5 entries, 3 stores'))
    obs += logseq_obs('C17')
    obs.append(O('c17.cds.fields', 'C17', 'h_codec.cpp', 'h_cds_fields', CODEC_TUS, unwind=65,
                 bounds='width symbolic 1..32, 3 fields; bits() all 2^32; bit ops on 64 bits'))
    obs += dac_obs('C17', what=('access', 'saveload', 'bvls'))
    return obs


CODER_TUS = ['utils/Coder/StatCoder.cpp', 'utils/Coder/DecodingTree.cpp', 'utils/Coder/DecodingTable.cpp', 'utils/VByte.cpp', 'libcds/src/utils/BitString.cpp']


def coder_obs(prop, what):
    obs = []
    c = {'IR2C_MAXBYTES': 16, 'IR2C_MAXELEMS': 16, 'VS_CAP': 96}
    if 'encode' in what:
        for ns, mb, tier in [(2, 20, Q), (3, 12, Q), (3, 20, T), (4, 9, T)]:
            obs.append(O('%s.statcoder.encode.s%d.b%d' % (prop.lower(), ns, mb), prop, 'h_coder.cpp', 'h_statcoder_encode', CODER_TUS, defs={'NSYM': ns, 'MAXBITS': mb}, cdefs=c,
                         unwind=8, unwindset={'^(h_|_ZL)': 260}, tier=tier, timeout=900, solver='kissat',
                         bounds='any code table (codeword lengths 1..%d bits), any %d-symbol string, any start bit offset 0..7' % (mb, ns)))
    if 'tree' in what:
        shapes = [('l2', '{0,0,1,0,1,1}', 6, 2, Q), ('l3r', '{0,0,1,0,0,1,0,1,1,1}', 10, 3, Q), ('l3l', '{0,0,0,1,0,1,1,0,1,1}', 10, 3, T)]
        for nm, bits, nb, nl, tier in shapes:
            obs.append(O('%s.dectree.save.%s' % (prop.lower(), nm), prop, 'h_coder.cpp', 'h_dectree_save', CODER_TUS, defs={'TREEBITS': bits, 'NTREEBITS': nb, 'NLEAVES': nl}, cdefs=dict(c, IR2C_MAXELEMS=16),
                         unwind=12, unwindset={'^(h_|_ZL)': 100, '_ZNSo5write': 33, '_ZNSi4read': 33}, tier=tier, timeout=1800,
                         bounds='decoding subtree of %d leaves (shape %s), symbolic leaf symbols and prefix: two saves of one object' % (nl, nm)))
    return obs


def c18():
    return coder_obs('C18', ('encode', 'tree'))


def c19():
    return bitseq_obs('C19')


def pool_ob(name, prop, w, t, k, unwind, tier=Q, timeout=1500, variant=None, **kw):
    defs = {'W': w, 'T': t}
    if variant: defs[variant] = None
    cdefs = {'VERIF_MAXT': w + 1, 'VERIF_K': k, 'VERIF_MAXM': 2 + w + 1, 'IR2C_MAXELEMS': 16, 'IR2C_MAXBYTES': 16}
    return O(name, prop, 'h_pool.cpp', 'h_pool', [], defs=defs, cdefs=cdefs, unwind=unwind, tier=tier, timeout=timeout, engine='E2', e2_setup='h_pool_setup', mem_gb=(8 if tier == Q else 16),
             bounds='%d worker(s), %d task(s)%s, every schedule with at most %d context switches (pre-emption at lock/wait/join points), loops unwound %d times (checked)' %
                    (w, t, ', last task stops the pool' if variant else '', k - 1, unwind), **kw)


def c11():
    obs = []
    for nm, w, t, k, u, tier, to, var in [('w1.t1.k3', 1, 1, 3, 4, Q, 840, None), ('w1.t0.k3', 1, 0, 3, 3, Q, 840, None), ('w1.t1.k4', 1, 1, 4, 4, T, 7200, None), ('w1.t0.k4', 1, 0, 4, 3, T, 7200, None),
                                            ('w1.t1.k5', 1, 1, 5, 4, T, 7200, None), ('w1.t1.k5.laststops', 1, 1, 5, 4, T, 10800, 'LAST_TASK_STOPS'),
                                            ('w1.t2.k6', 1, 2, 6, 5, T, 10800, None), ('w2.t1.k5', 2, 1, 5, 4, T, 10800, None)]:
        o = pool_ob('c11.pool.' + nm, 'C11', w, t, k, u, tier=tier, timeout=to, variant=var)
        o.defs['RACE'] = None
        o.cdefs['VERIF_NREG'] = 3 + w
        o.mem_gb = 24 if tier == Q else 30     # the lockset monitor doubles the formula: the two quick queries fit side by side, the others run one at a time
        o.bounds += '; every load/store of the thread code that touches the pool, a worker or the task counters is checked by the lockset monitor'
        obs.append(o)
    return obs


def c10():
    obs = []
    obs.append(pool_ob('c10.pool.w1.t1.k5', 'C10', 1, 1, 5, 4))
    obs.append(pool_ob('c10.pool.w1.t0.k4', 'C10', 1, 0, 4, 3))
    obs.append(pool_ob('c10.pool.w1.t1.k5.laststops', 'C10', 1, 1, 5, 4, variant='LAST_TASK_STOPS'))
    obs.append(pool_ob('c10.pool.w1.t1.k5.laststops.long', 'C10', 1, 1, 5, 4, variant='LAST_TASK_STOPS', tier=T, timeout=7200))
    obs.append(pool_ob('c10.pool.w1.t2.k6', 'C10', 1, 2, 6, 5, tier=T, timeout=7200))
    obs.append(pool_ob('c10.pool.w2.t1.k5', 'C10', 2, 1, 5, 4, tier=T, timeout=7200))
    obs.append(pool_ob('c10.pool.w2.t0.k5', 'C10', 2, 0, 5, 3, tier=T, timeout=7200))
    return obs


def blocks_ob(name, prop, n, l, threads, k, unwind, tier=Q, timeout=2400, **kw):
    prop = 'X09'
    defs = {'NSTR': n, 'LMAX': l, 'THREADS': threads, 'QCAP': n}
    cdefs = {'VERIF_MAXT': threads + 1, 'VERIF_K': k, 'VERIF_MAXM': 3 + threads + 1, 'IR2C_MAXELEMS': 16, 'IR2C_MAXBYTES': 32}
    return O(name, prop, 'h_blocks_par.cpp', 'h_blocks_par', [], defs=defs, cdefs=cdefs, unwind=unwind, tier=tier, timeout=timeout, engine='E2', e2_setup='h_blocks_setup', mem_gb=10,
             unwindset={'^h_blocks_setup': 4 * (n + 2) * (l + 2), '^(_ZL|ir2c_str|ir2c_mem)': 4 * (l + 3)},
             bounds='real block constructor, %d symbolic strings of 1..%d bytes, symbolic cut size (every block layout), %d worker thread(s), every schedule with at most %d context switches; per-block builder replaced by name' %
                    (n, l, threads, k - 1), **kw)


def c09():
    obs = []
    obs.append(blocks_ob('c09.blocks.n1l1.w1.k5', 'C09', 1, 1, 1, 5, 4, timeout=5400))
    obs.append(blocks_ob('c09.blocks.n2l1.w1.k6', 'C09', 2, 1, 1, 6, 5, tier=T, timeout=10800))
    obs.append(blocks_ob('c09.blocks.n2l1.w2.k6', 'C09', 2, 1, 2, 6, 5, tier=T, timeout=10800))
    obs.append(blocks_ob('c09.blocks.n3l1.w1.k7', 'C09', 3, 1, 1, 7, 6, tier=T, timeout=10800))
    return obs


def xr():
    # experimental, not registered: RPDAC whole kind with a model compressor (no verdict within 1 h, see DESIGN.md)
    return rpdac_family('XR', 'c01', 'h_rpdac_c01') + rpdac_family('XR', 'c02', 'h_rpdac_c02') + rpdac_family('XR', 'c04', 'h_rpdac_c04')


# C09 (c09()) is not registered: the smallest instance ran out of memory after 1 h (DESIGN.md 3/C09)
def xb():
    return blocks_obs('XB', ['queries', 'table', 'saveload'])


TABLE = {'XB': xb, 'XR': xr, 'X09': c09, 'C10': c10, 'C11': c11, 'C18': c18, 'C01': c01, 'C02': c02, 'C03': c03, 'C04': c04, 'C06': c06, 'C07': c07, 'C08': c08, 'C12': c12, 'C13': c13, 'C14': c14,
         'C15': c15, 'C16': c16, 'C17': c17, 'C19': c19}


def obligations(prop):
    f = TABLE.get(prop)
    return f() if f else []
