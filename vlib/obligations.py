"""Obligation tables: which harness entries, parameter vectors and bounds decide each property."""
from .core import Obligation

ALL_PROPS = ['C%02d' % i for i in range(1, 21)]
E2_PROPS = ('C09', 'C10', 'C11')

PFC_TUS = ['StringDictionaryPFC.cpp', 'StringDictionary.cpp', 'utils/LogSequence.cpp', 'utils/VByte.cpp']
CODEC_TUS = ['utils/LogSequence.cpp', 'utils/VByte.cpp']


def O(name, prop, harness, entry, tus, **kw):
    return Obligation(name, prop, harness, entry, tus, **kw)


def c17():
    obs = []
    obs.append(O('c17.vbyte.roundtrip', 'C17', 'h_codec.cpp', 'h_vbyte_roundtrip', CODEC_TUS, unwind=7,
                 bounds='all 2^32 values'))
    obs.append(O('c17.vb2.roundtrip', 'C17', 'h_codec.cpp', 'h_vb2_roundtrip', CODEC_TUS, unwind=7, bounds='all 2^32 values'))
    obs.append(O('c17.logseq.setget.cap3', 'C17', 'h_codec.cpp', 'h_logseq_setget', CODEC_TUS, defs={'CAP': 3}, unwind=12,
                 bounds='width symbolic 1..64, 3 entries, 3 stores at symbolic positions, values symbolic < 2^w'))
    obs.append(O('c17.logseq.saveload.cap3', 'C17', 'h_codec.cpp', 'h_logseq_saveload', CODEC_TUS, defs={'CAP': 3}, unwind=5,
                 unwindset={'^h_': 40, '_ZNSo5write': 34, '_ZNSi4read': 34, 'verif_stream': 40}, cdefs={'VS_CAP': 40}, bounds='width symbolic 1..64, 3 entries'))
    obs.append(O('c17.cds.fields', 'C17', 'h_codec.cpp', 'h_cds_fields', CODEC_TUS, unwind=65,
                 bounds='width symbolic 1..32, 3 fields; bits() all 2^32; bit ops on 64 bits'))
    return obs



def pfc_caps(n, l, bs, memalloc):
    """allocation case-split caps derived from the stated bounds (checked by assertion, not assumed)"""
    bs = max(bs, 2)
    reserved = memalloc * bs
    total = n * (l + 2)
    while reserved < total + 2 * l: reserved *= 2
    maxbytes = max(reserved, n * (l + 1), l + 2)
    entries = (n + bs - 1) // bs + 2
    cap = 1
    while cap < entries: cap *= 2
    return {'IR2C_MAXBYTES': maxbytes, 'IR2C_MAXELEMS': max(cap, 2)}


def pfc(name, prop, entry, n, l, bs, unwind=None, memalloc=None, **kw):
    """PFC whole-kind obligation.  memalloc=None: the MEMALLOC hook is set so that the text buffer never has to
    grow (growth is decided by the dedicated C07 obligations, which pass memalloc explicitly)."""
    defs = {'NSTR': n, 'LMAX': l, 'BS': bs}
    defs.update(kw.pop('defs', {}))
    # image: 32-byte header + text (<= n*(l+2)) + LogSequence (9 + 8*words)
    defs.setdefault('VS_BOUND', 32 + n * (l + 2) + 9 + 16)
    bss = [max(bs, 2)] + ([max(defs['BS2'], 2)] if 'BS2' in defs else [])
    grow = memalloc is not None
    if memalloc is None:
        memalloc = max(-(-(n * (l + 2) + 2 * l) // min(bss)), 2)
    caps = [pfc_caps(n, l, b, memalloc) for b in bss]
    cdefs = {k: max(c[k] for c in caps) for k in caps[0]}
    cdefs['VS_CAP'] = defs['VS_BOUND']
    cdefs.update(kw.pop('cdefs', {}))
    kw.setdefault('timeout', 240)
    us = {'^(h_|_ZL)': (n + 2) * (l + 4), '_ZSt14__relocate': cdefs['IR2C_MAXELEMS'] + 1, '_ZNSo5write': cdefs['IR2C_MAXBYTES'] + 1, '_ZNSi4read': cdefs['IR2C_MAXBYTES'] + 1, 'verif_stream_equal': defs['VS_BOUND'] + 1}
    if grow: us['_Z10ReallocatePPhm'] = cdefs['IR2C_MAXBYTES'] + 1
    us.update(kw.pop('unwindset', {}))
    return O(name, prop, 'h_pfc.cpp', entry, PFC_TUS, defs=defs, libdefs={'LIBCSD_VERIF_MEMALLOC': memalloc}, cdefs=cdefs,
             unwind=unwind or max(n + 2, l + 3), unwindset=us,
             bounds='%d strings x 1..%d bytes over 0x02..0xFE (all sorted sets), bucketsize %s, MEMALLOC hook %d%s' %
                    (n, l, bs, memalloc, ' (buffer growth exercised)' if grow else ''), **kw)


def c01():
    obs = []
    obs.append(pfc('c01.pfc.n2l2.bs2', 'C01', 'h_pfc_c01', 2, 2, 2))
    obs.append(pfc('c01.pfc.n3l2.bs2', 'C01', 'h_pfc_c01', 3, 2, 2))
    obs.append(pfc('c01.pfc.n3.len222.bs2', 'C01', 'h_pfc_c01', 3, 2, 2, defs={'LENV': '{2,2,2}'}))
    obs.append(pfc('c01.pfc.n3.len121.bs2', 'C01', 'h_pfc_c01', 3, 2, 2, defs={'LENV': '{1,2,1}'}))
    obs.append(pfc('c01.pfc.n4.len2222.bs2', 'C01', 'h_pfc_c01', 4, 2, 2, defs={'LENV': '{2,2,2,2}'}, timeout=900))
    obs.append(pfc('c01.pfc.n3.len333.bs2', 'C01', 'h_pfc_c01', 3, 3, 2, defs={'LENV': '{3,3,3}'}, timeout=900))
    return obs


def px():
    obs = []
    for e in ['c12', 'saveload', 'c14']:
        obs.append(pfc('px.%s' % e, 'PX', 'h_pfc_' + e, 3, 2, 2, defs={'LENV': '{1,2,2}', 'BS2': 3}, timeout=900))
    return obs


BITSEQ_TUS = ['libcds/src/bitsequence/BitSequence.cpp', 'libcds/src/bitsequence/BitSequenceRG.cpp', 'libcds/src/utils/BitString.cpp', 'libcds/src/utils/cppUtils.cpp']
DAC_TUS = ['utils/DAC_VLS.cpp', 'utils/DAC_BVLS.cpp'] + BITSEQ_TUS
BITSEQ_STUBS = ['_ZN10cds_static14BitSequenceRRR4loadERSi', '_ZN10cds_static18BitSequenceSDArray4loadERSi', '_ZN10cds_static17BitSequenceDArray4loadERSi']


def unit(name, prop, entry, tus, **kw):
    kw.setdefault('extra_stub', BITSEQ_STUBS)
    kw.setdefault('extra_c', ['stub_bitseq_loaders.c'])
    return O(name, prop, 'h_units.cpp', entry, tus, **kw)


def ux():
    obs = []
    d = {'NSEQ': 2, 'SEQLENS': '{2,1}', 'MAXSEQ': 2, 'VS_BOUND': 96}
    c = {'IR2C_MAXBYTES': 16, 'IR2C_MAXELEMS': 8, 'VS_CAP': 96}
    obs.append(unit('ux.dacvls.access', 'UX', 'h_dacvls_access', DAC_TUS, defs=d, cdefs=c, unwind=8))
    obs.append(unit('ux.dacvls.saveload', 'UX', 'h_dacvls_saveload', DAC_TUS, defs=d, cdefs=c, unwind=8, unwindset={'_ZNSo5write': 33, '_ZNSi4read': 33, 'verif_stream_equal': 97}))
    obs.append(unit('ux.dacbvls', 'UX', 'h_dacbvls', DAC_TUS, defs=dict(d, BVLS_SAVE=None), cdefs=c, unwind=8, unwindset={'_ZNSo5write': 33, '_ZNSi4read': 33, 'verif_stream_equal': 97}))
    d1 = {'NSEQ': 2, 'SEQLENS': '{1,1}', 'MAXSEQ': 1, 'VS_BOUND': 96}
    obs.append(unit('ux.dacvls.access.len1', 'UX', 'h_dacvls_access', DAC_TUS, defs=d1, cdefs=c, unwind=8))
    for nb, fa in [(33, 4), (65, 2), (32, 1), (1, 20)]:
        us = {'^(h_|_ZL)': 2 * nb + 40, '_ZNSo5write': 33, '_ZNSi4read': 33, 'verif_stream_equal': 97}
        for part in (1, 2, 3, 4):
            b = {'NBITS': nb, 'FACTOR': fa, 'VS_BOUND': 96, 'PART': part}
            obs.append(unit('ux.bitseqrg.n%d.f%d.p%d' % (nb, fa, part), 'UX', 'h_bitseqrg', BITSEQ_TUS, defs=b, cdefs=c, unwind=10, unwindset=us, solver='kissat'))
        b = {'NBITS': nb, 'FACTOR': fa, 'VS_BOUND': 96, 'PART': 1}
        obs.append(unit('ux.bitseqrg.saveload.n%d.f%d' % (nb, fa), 'UX', 'h_bitseqrg_saveload', BITSEQ_TUS, defs=b, cdefs=c, unwind=10, unwindset=us, solver='kissat'))
    b = {'NBITS': 33, 'FACTOR': 4, 'VS_BOUND': 96}
    obs.append(unit('ux.bitstring', 'UX', 'h_bitstring', BITSEQ_TUS, defs=b, cdefs=c, unwind=10, unwindset={'^(h_|_ZL)': 100, '_ZNSo5write': 33, '_ZNSi4read': 33}))
    for e in ['contiguous', 'duplicates', 'nocontiguous', 'stringvector']:
        obs.append(unit('ux.it.' + e, 'UX', 'h_it_' + e, [], defs={'NIDS': 4}, cdefs=c, unwind=8, unwindset={'^h_': 20}))
    obs.append(unit('ux.reallocate', 'UX', 'h_reallocate', [], defs={'RLEN': 4}, cdefs=c, unwind=18))
    return obs


CSD_TUS = """StringDictionary.cpp StringDictionaryFMINDEX.cpp StringDictionaryHASHHF.cpp StringDictionaryHASHRPDAC.cpp StringDictionaryHASHRPF.cpp
StringDictionaryHASHUFFDAC.cpp StringDictionaryHHTFC.cpp StringDictionaryHTFC.cpp StringDictionaryPFC.cpp StringDictionaryRPDAC.cpp StringDictionaryRPFC.cpp
StringDictionaryRPHTFC.cpp StringDictionaryXBW.cpp FMIndex/SSA.cpp FMIndex/SuffixArray.cpp Hash/HashBBdh.cpp Hash/HashBdh.cpp Hash/Hash.cpp Hash/HashDAC.cpp Hash/Hashdh.cpp
Huffman/huff.cpp Huffman/Huffman.cpp HuTucker/HuTucker.cpp RePair/RePair.cpp utils/DAC_BVLS.cpp utils/DAC_VLS.cpp utils/LogSequence.cpp utils/VByte.cpp
utils/Coder/BinaryNode.cpp utils/Coder/Coder.cpp utils/Coder/DecodingTableBuilder.cpp utils/Coder/DecodingTable.cpp utils/Coder/DecodingTree.cpp utils/Coder/StatCoder.cpp
XBW/TrieNode.cpp XBW/XBW.cpp""".split() + BITSEQ_TUS

KINDS = {
    # kind: (class, tag constant, loader call, unsupported-operation flags)
    'PFC': ('StringDictionaryPFC', 'PFC', None, ['NO_SUBSTR']),
    'RPFC': ('StringDictionaryRPFC', 'RPFC', None, ['NO_SUBSTR']),
    'HTFC': ('StringDictionaryHTFC', 'HTFC', None, ['NO_SUBSTR']),
    'HHTFC': ('StringDictionaryHHTFC', 'HHTFC', None, ['NO_SUBSTR']),
    'RPHTFC': ('StringDictionaryRPHTFC', 'RPHTFC', None, ['NO_SUBSTR']),
    'RPDAC': ('StringDictionaryRPDAC', 'RPDAC', None, ['NO_SUBSTR']),
    'HASHHF': ('StringDictionaryHASHHF', 'HASHHF', 'KIND::load(in, HASHUFF)', ['NO_PREFIX', 'NO_SUBSTR', 'NO_RANK']),
    'HASHRPF': ('StringDictionaryHASHRPF', 'HASHRPF', 'KIND::load(in, HASHRP)', ['NO_PREFIX', 'NO_SUBSTR', 'NO_RANK']),
    'HASHUFFDAC': ('StringDictionaryHASHUFFDAC', 'HASHUFFDAC', None, ['NO_PREFIX', 'NO_SUBSTR', 'NO_RANK']),
    'HASHRPDAC': ('StringDictionaryHASHRPDAC', 'HASHRPDAC', 'KIND::load(in, 0)', ['NO_PREFIX', 'NO_SUBSTR', 'NO_RANK']),
    'FMINDEX': ('StringDictionaryFMINDEX', 'FMINDEX', None, []),
    'XBW': ('StringDictionaryXBW', 'DXBW', None, ['NO_TABLE']),
}


def kind_ob(name, prop, entry, kind, flags=(), **kw):
    cls, tag, lc, _ = KINDS[kind]
    defs = {'KIND': cls, 'KTAG': tag}
    if lc: defs['LOADCALL(in)'] = lc
    for f in flags: defs[f] = None
    kw.setdefault('unwind', 2)
    kw.setdefault('cdefs', {'IR2C_MAXBYTES': 16, 'IR2C_MAXELEMS': 4, 'VS_CAP': 32})
    kw.setdefault('extra_stub', BITSEQ_STUBS)
    kw.setdefault('extra_c', ['stub_bitseq_loaders.c'])
    kw.setdefault('unwindset', {'^(h_|_ZL)': 40, 'verif_stream': 40, '_ZNSi4read': 9, '_ZNSo5write': 9})
    return O(name, prop, 'h_kinds.cpp', entry, CSD_TUS, defs=defs, bounds='kind %s, default-constructed object with symbolic element count' % kind, **kw)


def kx():
    obs = []
    for k in KINDS:
        obs.append(kind_ob('kx.guard.' + k.lower(), 'KX', 'h_kind_extract_guard', k))
        if KINDS[k][3]: obs.append(kind_ob('kx.unsup.' + k.lower(), 'KX', 'h_kind_unsupported', k, flags=KINDS[k][3]))
        obs.append(kind_ob('kx.wrongtag.' + k.lower(), 'KX', 'h_kind_load_wrong_tag', k))
    loaders = ['_ZN22StringDictionaryHASHHF4loadERSij', '_ZN26StringDictionaryHASHUFFDAC4loadERSi', '_ZN23StringDictionaryHASHRPF4loadERSij', '_ZN25StringDictionaryHASHRPDAC4loadERSij',
               '_ZN19StringDictionaryPFC4loadERSi', '_ZN20StringDictionaryRPFC4loadERSi', '_ZN20StringDictionaryHTFC4loadERSi', '_ZN21StringDictionaryHHTFC4loadERSi',
               '_ZN22StringDictionaryRPHTFC4loadERSi', '_ZN21StringDictionaryRPDAC4loadERSi', '_ZN23StringDictionaryFMINDEX4loadERSi', '_ZN19StringDictionaryXBW4loadERSi']
    obs.append(O('kx.dispatch', 'KX', 'h_kinds.cpp', 'h_generic_dispatch', ['StringDictionary.cpp'], unwind=6, cdefs={'VS_CAP': 32}, extra_stub=loaders + ['verif_sentinel'],
                 extra_c=['stub_kind_loaders.c'], unwindset={'^(h_|_ZL)': 40}, bounds='all 2^32 tags, all load options'))
    return obs


TABLE = {'C17': c17, 'C01': c01, 'PX': px, 'UX': ux, 'KX': kx}


def obligations(prop):
    f = TABLE.get(prop)
    return f() if f else []
