"""Obligation tables: which harness entries, parameter vectors and bounds decide each property."""
from .core import Obligation

ALL_PROPS = ['C%02d' % i for i in range(1, 21)]
E2_PROPS = ('C09', 'C10', 'C11')

PFC_TUS = ['StringDictionaryPFC.cpp', 'StringDictionary.cpp', 'utils/LogSequence.cpp', 'utils/VByte.cpp']
CODEC_TUS = ['utils/LogSequence.cpp', 'utils/VByte.cpp']


def O(name, prop, harness, entry, tus, **kw):
    return Obligation(name, prop, harness, entry, tus, **kw)


def c17():
    obs = []
    obs.append(O('c17.vbyte.roundtrip', 'C17', 'h_codec.cpp', 'h_vbyte_roundtrip', CODEC_TUS, unwind=7,
                 bounds='all 2^32 values'))
    obs.append(O('c17.vb2.roundtrip', 'C17', 'h_codec.cpp', 'h_vb2_roundtrip', CODEC_TUS, unwind=7, bounds='all 2^32 values'))
    obs.append(O('c17.logseq.setget.cap3', 'C17', 'h_codec.cpp', 'h_logseq_setget', CODEC_TUS, defs={'CAP': 3}, unwind=12,
                 bounds='width symbolic 1..64, 3 entries, 3 stores at symbolic positions, values symbolic < 2^w'))
    obs.append(O('c17.logseq.saveload.cap3', 'C17', 'h_codec.cpp', 'h_logseq_saveload', CODEC_TUS, defs={'CAP': 3}, unwind=5,
                 unwindset={'^h_': 40, '_ZNSo5write': 34, '_ZNSi4read': 34, 'verif_stream': 40}, cdefs={'VS_CAP': 40}, bounds='width symbolic 1..64, 3 entries'))
    obs.append(O('c17.cds.fields', 'C17', 'h_codec.cpp', 'h_cds_fields', CODEC_TUS, unwind=65,
                 bounds='width symbolic 1..32, 3 fields; bits() all 2^32; bit ops on 64 bits'))
    return obs


TABLE = {'C17': c17}


def obligations(prop):
    f = TABLE.get(prop)
    return f() if f else []
