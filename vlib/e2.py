"""Engine E2 (seqsched): schedules as solver variables.

The real Worker.hpp (and, for C09/C11, the real block-dictionary constructor) is compiled to IR with inlining,
translated by ir2c.py in resumable mode (functions that can reach a blocking primitive become step functions over
explicit frames), linked with the primitive/scheduler model rt/e2_rt.h and solved by cbmc.  Bounds: W workers,
T tasks, VERIF_K activations (= context switches + 1), loop unwinding.
"""
import os, re, sys, json, time
from . import core
from .core import run, BuildError, VERIF, REPO, RT, dflags

BLOCKING = ['pthread_mutex_lock', '_ZNSt18condition_variable4waitERSt11unique_lockISt5mutexE', '_ZNSt6thread4joinEv']
THREAD_ENTRY = r'_ZNSt6thread11_State_implI.*E6_M_runEv'
IRFLAGS = ['-std=c++17', '-O1', '-fno-exceptions', '-I' + os.path.join(VERIF, 'harness'), '-fno-vectorize', '-fno-slp-vectorize', '-fno-unroll-loops', '-w', '-S', '-emit-llvm']
CBMC = ['--unwinding-assertions', '--drop-unused-functions', '--object-bits', '12', '--no-standard-checks', '--trace', '--verbosity', '8']


def e2_defined():
    txt = open(os.path.join(RT, 'e2_rt.h')).read()
    return set(re.findall(r'^(?:static\s+)?[A-Za-z_][A-Za-z0-9_ \*]*?[ \*]([A-Za-z_][A-Za-z0-9_]*)\s*\([^;{]*\)\s*\{', txt, re.M))


def build(rn, ob):
    d = rn.odir(ob)
    hd = dict(ob.libdefs); hd.update(ob.defs)
    lls = []
    for src in [os.path.join(VERIF, 'harness', ob.harness)] + [os.path.join(REPO, t) for t in ob.tus]:
        out = os.path.join(d, os.path.basename(src) + '.ll')
        cmd = [core.CLANG] + IRFLAGS + core.INCLUDES + ['-D' + core.GUARD] + dflags(hd) + [src, '-o', out]
        rc, so, se, w, _ = run(cmd, timeout=300)
        if rc != 0: raise BuildError('clang failed on %s:\n%s' % (src, se[-2500:]))
        lls.append(out)
    mll = os.path.join(d, 'm.ll')
    rc, so, se, w, _ = run([core.LLVM_LINK, '-S'] + lls + ['-o', mll], timeout=120)
    if rc != 0: raise BuildError('llvm-link failed:\n%s' % se[-2000:])
    mc = os.path.join(d, 'm.c'); rep = os.path.join(d, 'rep.json'); deff = os.path.join(d, 'defined.txt')
    defined = set(rn.stubs) | e2_defined()
    for cf in ob.extra_c_files:
        txt = open(os.path.join(VERIF, 'harness', cf)).read()
        defined |= set(re.findall(r'^[A-Za-z_][A-Za-z0-9_ \*]*?[ \*]([A-Za-z_][A-Za-z0-9_]*)\s*\([^;{]*\)\s*\{', txt, re.M))
    open(deff, 'w').write('\n'.join(sorted(defined)) + '\n')
    cmd = [sys.executable, os.path.join(VERIF, 'ir2c.py'), mll, '-o', mc, '--report', rep, '--defined', deff, '--e2-main', ob.entry, '--e2-thread-entry', THREAD_ENTRY]
    if ob.e2_setup: cmd += ['--e2-setup', ob.e2_setup]
    if 'RACE' in ob.defs: cmd += ['--race-instrument']
    for b in BLOCKING: cmd += ['--blocking', b]
    for s in ob.extra_stub: cmd += ['--stub', s]
    rc, so, se, w, _ = run(cmd, timeout=300)
    if rc != 0: raise BuildError('ir2c failed:\n%s' % se[-3000:])
    return mc, json.load(open(rep))


def model_runs(rn, ob, mc, nseeds=60):
    """the generated model executed concretely under pseudo-random schedules: reachability witness (some run must
    complete) and a cheap sanity check; decides nothing"""
    d = rn.odir(ob)
    cbin = os.path.join(d, 'model_native')
    cd = dict(ob.cdefs); cd['VERIF_K'] = 64        # a concrete run may use more switches than the solver's bound
    cmd = ['gcc', '-O1', '-w', '-falign-functions=16', '-I' + RT, '-DVERIF_ENTRY=verif_e2_entry'] + dflags(cd) + [mc, os.path.join(RT, 'stubs.c')] + \
          [os.path.join(VERIF, 'harness', s) for s in ob.extra_c_files] + ['-lm', '-o', cbin]
    rc, so, se, w, _ = run(cmd, timeout=300)
    if rc != 0: return dict(status='build-failed', detail=se[-1500:])
    done = 0; dead = 0; other = 0; fails = []
    for seed in range(1, nseeds + 1):
        r = run([cbin, str(seed)], timeout=20)
        out = r[1]
        if 'DEADLOCK' in out: dead += 1
        elif r[0] == 0 and 'END' in out and not re.search(r'^A \d+ 0$', out, re.M): done += 1
        else:
            other += 1
            if re.search(r'^A \d+ 0$', out, re.M) or 'ASSERT-FAILED' in out: fails.append(seed)
    return dict(status='ok', runs=nseeds, completed=done, deadlocked=dead, other=other, failing_seeds=fails[:5])


def cbmc(rn, ob, mc):
    d = rn.odir(ob)
    cd = dict(ob.cdefs); cd['VERIF_NO_WITNESS'] = None
    K = int(cd.get('VERIF_K', 8)); MT = int(cd.get('VERIF_MAXT', 3)); MM = int(cd.get('VERIF_MAXM', 8))
    us = {'verif_e2_run.0': max(K, MT) + 1, 'verif_e2_run.1': max(K, MT) + 1, 'verif_e2_run.2': max(K, MT) + 1, 'verif_mword.0': MM + 1, 'verif_enabled.0': MM + 1, 'verif_held.0': MM + 1, 'verif_acc.0': 8,
          '_ZNSt18condition_variable10notify_allEv.0': MT + 1, '_ZNSt18condition_variable10notify_oneEv.0': MT + 1}
    cmd = ['cbmc', mc, os.path.join(RT, 'stubs.c')] + [os.path.join(VERIF, 'harness', s) for s in ob.extra_c_files] + \
          ['-I' + RT, '--function', 'verif_e2_entry', '--unwind', str(ob.unwind)] + CBMC + dflags(cd)
    ls = rn.loops_cmd(cmd0=['cbmc', mc, os.path.join(RT, 'stubs.c')] + [os.path.join(VERIF, 'harness', s) for s in ob.extra_c_files] + ['-I' + RT, '--function', 'verif_e2_entry'] + dflags(cd))
    usd = {l: n for l, n in us.items() if l in ls}
    for pat, n in ob.unwindset.items():
        rx = re.compile(pat)
        for l in ls:
            if rx.search(l): usd[l] = n
    if usd: cmd += ['--unwindset', ','.join('%s:%d' % kv for kv in usd.items())]
    if ob.solver == 'kissat': cmd += ['--external-sat-solver', 'kissat']
    elif ob.solver == 'cadical': cmd += ['--sat-solver', 'cadical']
    rc, so, se, w, rss = run(cmd, timeout=ob.timeout * float(os.environ.get('VERIF_TIMEOUT_SCALE', '1')), mem_gb=min(max(ob.mem_gb * 3, 24), 56))
    open(os.path.join(d, 'cbmc.out'), 'w').write('CMD: ' + ' '.join(cmd) + '\n' + so + '\n--- stderr ---\n' + se)
    res = dict(cmd=' '.join(cmd), wall_s=round(w, 1), rc=rc)
    if rc is None: res['status'] = 'timeout'; return res
    m = re.search(r'(\d+) variables, (\d+) clauses', so)
    if m: res['sat_vars'] = int(m.group(1)); res['sat_clauses'] = int(m.group(2))
    st = [float(x) for x in re.findall(r'Runtime Solver: ([\d.]+)s', so)]
    if st: res['solver_s'] = round(sum(st), 2)
    m = re.search(r'size of program expression: (\d+) steps', so)
    if m: res['symex_steps'] = int(m.group(1))
    props = re.findall(r'^\[([^\]]+)\] (?:line \d+ )?(.*): (SUCCESS|FAILURE|UNKNOWN|ERROR)$', so, re.M)
    # a verdict exists only if cbmc itself says so: exit 0 + VERIFICATION SUCCESSFUL, or exit 10 + VERIFICATION FAILED;
    # anything else (VERIFICATION ERROR, solver out of memory, properties left in state ERROR/UNKNOWN) is no verdict
    ok_pass = rc == 0 and 'VERIFICATION SUCCESSFUL' in so
    ok_fail = rc == 10 and 'VERIFICATION FAILED' in so
    if props and not (ok_pass or ok_fail) or any(r_ in ('ERROR', 'UNKNOWN') for _, _, r_ in props):
        res['status'] = 'oom' if ('out of memory' in (so + se).lower() or 'bad_alloc' in (so + se)) else 'error'
        res['detail'] = 'cbmc returned no verdict (rc=%s): %s' % (rc, ' '.join(l for l in so.split('\n') if 'ERROR' in l or 'memory' in l.lower())[:300])
        return res
    if 'VERIFICATION' not in so or not props:
        res['status'] = 'error'; res['detail'] = so[-1200:] + se[-1200:]
        if 'out of memory' in (so + se).lower() or 'bad_alloc' in (so + se): res['status'] = 'oom'
        return res
    res['properties_checked'] = len(props)
    failed = [(pid, desc) for pid, desc, r in props if r == 'FAILURE']
    res['failed'] = [dict(id=pid, desc=desc) for pid, desc in failed]
    traces = {}
    parts = re.split(r'^Trace for ([^\s:]+):\s*$', so, flags=re.M)
    for i in range(1, len(parts) - 1, 2): traces[parts[i]] = parts[i + 1]
    res['_traces'] = traces
    res['status'] = 'fail' if failed else 'pass'
    return res


def schedule_of(trace):
    """the solver's schedule: scheduler picks (thread ids) and pre-emption decisions (200 run on / 201 switch), in order"""
    return [int(v) for v in re.findall(r'^\s*verif_sched_log=(\d+)', trace, re.M)]


def native_sched_bin(rn, ob):
    """the real code (g++, real libstdc++ threads) under a schedule-forcing pthread layer (rt/native_sched.cpp)"""
    d = rn.odir(ob)
    out = os.path.join(d, 'native_sched')
    hd = dict(ob.libdefs); hd.update(ob.defs); hd['VERIF_ENTRY'] = ob.entry
    if ob.e2_setup: hd['VERIF_SETUP'] = ob.e2_setup
    srcs = [os.path.join(VERIF, 'harness', ob.harness), os.path.join(RT, 'native_sched.cpp')] + [os.path.join(REPO, t) for t in ob.tus]
    cmd = ['g++', '-std=c++17', '-O1', '-g', '-w', '-fno-inline', '-I' + os.path.join(VERIF, 'harness')] + core.INCLUDES + ['-D' + core.GUARD] + dflags(hd) + srcs + ['-o', out, '-lpthread', '-ldl']
    rc, so, se, w, _ = run(cmd, timeout=600)
    if rc != 0: raise BuildError('native schedule-replay build failed:\n%s' % se[-2500:])
    return out


def replay_tsan(rn, ob, path, sched):
    """C11: confirm a race reported by the lockset monitor with ThreadSanitizer on the real code, free-running threads"""
    with open(path, 'w') as f:
        f.write('# replay for obligation %s entry %s\n# data race reported by the lockset monitor; schedule of the counterexample follows (informational)\n' % (ob.name, ob.entry))
        for v in sched: f.write('%d\n' % v)
    d = rn.odir(ob)
    out = os.path.join(d, 'native_tsan')
    hd = dict(ob.libdefs); hd.update(ob.defs); hd['VERIF_ENTRY'] = ob.entry
    if ob.e2_setup: hd['VERIF_SETUP'] = ob.e2_setup
    # the race itself does not depend on the model's bounds: confirm on a busier configuration (more workers and
    # tasks, tasks that take a moment), where unordered access pairs actually occur in free runs
    hd.update({'W': 2, 'T': 6, 'VERIF_TSAN': None}); hd.pop('QCAP', None)
    srcs = [os.path.join(VERIF, 'harness', ob.harness), os.path.join(RT, 'native_tsan.cpp')] + [os.path.join(REPO, t) for t in ob.tus]
    cmd = ['g++', '-std=c++17', '-O1', '-g', '-w', '-fsanitize=thread', '-I' + os.path.join(VERIF, 'harness')] + core.INCLUDES + ['-D' + core.GUARD] + dflags(hd) + srcs + ['-o', out, '-lpthread']
    rc, so, se, w, _ = run(cmd, timeout=600)
    if rc != 0: raise BuildError('TSan build failed:\n%s' % se[-2000:])
    env = dict(os.environ); env['TSAN_OPTIONS'] = 'halt_on_error=0 report_signal_unsafe=0'
    for i in range(60):
        rc, so, se, w, _ = run([out], timeout=30, env=env)
        if 'ThreadSanitizer: data race' in se or 'ThreadSanitizer: data race' in so:
            m = re.search(r'WARNING: ThreadSanitizer: data race[^\n]*\n(?:.*\n){0,6}', se + so)
            return dict(outcome='confirmed', how='ThreadSanitizer on the real code (run %d): %s' % (i + 1, (m.group(0) if m else 'data race')[:400].replace('\n', ' | ')), rc=rc)
    return dict(outcome='unconfirmed', how='ThreadSanitizer reports no data race in 60 free runs of the real code', rc=rc)


def replay(rn, ob, sched, path):
    with open(path, 'w') as f:
        f.write('# replay for obligation %s entry %s\n' % (ob.name, ob.entry))
        f.write('# schedule: scheduler picks are thread ids, 200 = run on at a yield point, 201 = pre-empted there\n')
        for v in sched: f.write('%d\n' % v)
    nbin = native_sched_bin(rn, ob)
    rc, so, se, w, _ = run([nbin, path], timeout=40)
    r = dict(rc=rc, stdout=so[-800:], stderr=se[-800:])
    if 'NATIVE-DEADLOCK' in so: r['outcome'] = 'confirmed'; r['how'] = 'real threads under the solver\'s schedule: ' + [l for l in so.split('\n') if 'NATIVE-DEADLOCK' in l][0]
    elif 'REPLAY-ASSERT-FAILED' in so: r['outcome'] = 'confirmed'; r['how'] = [l for l in so.split('\n') if 'REPLAY-ASSERT-FAILED' in l][0]
    elif 'NATIVE-RACE' in so or 'NATIVE-MISUSE' in so: r['outcome'] = 'confirmed'; r['how'] = [l for l in so.split('\n') if 'NATIVE-' in l][0]
    elif rc is None: r['outcome'] = 'confirmed'; r['how'] = 'real threads under the solver\'s schedule do not terminate (40 s)'
    elif rc == 0: r['outcome'] = 'unconfirmed'; r['how'] = 'native run under the schedule completes'
    elif rc < 0 or rc in (134, 139): r['outcome'] = 'confirmed'; r['how'] = 'native run crashes rc=%s' % rc
    else: r['outcome'] = 'unconfirmed'; r['how'] = 'native replay could not follow the schedule: ' + (so.strip().split('\n')[-1][:200] if so.strip() else se[-200:])
    return r


def process(rn, ob, gate, kf_open, prop, replay_dir):
    rec = dict(obligation=ob.name, engine='E2', harness=ob.harness, entry=ob.entry, params=dict(ob.defs), model_params=dict(ob.cdefs),
               unwind=ob.unwind, bounds=ob.bounds, units=ob.tus or ['parallel/Worker.hpp (header, via the harness)'], tier=ob.tier)
    t0 = time.time()
    try:
        mc, rep = build(rn, ob)
    except BuildError as e:
        rec.update(verdict='INCONCLUSIVE', reason='build: ' + str(e)[:1500]); return rec
    rec['functions_encoded'] = rep['functions']; rec['n_functions_encoded'] = len(rep['functions'])
    rec['resumable_functions'] = rep.get('mayblock', [])
    rec['externals_trapped_if_reached'] = rep.get('trapped', [])
    gate.acquire(ob.mem_gb)
    try:
        rec['model_concrete_runs'] = mr = model_runs(rn, ob, mc)
        res = cbmc(rn, ob, mc)
        rec['cbmc'] = {k: v for k, v in res.items() if not k.startswith('_')}
        if res['status'] in ('timeout', 'oom', 'error'):
            rec.update(verdict='INCONCLUSIVE', reason='NO-VERDICT: cbmc ' + res['status'] + ' ' + res.get('detail', '')[:300]); return rec
        if res['status'] == 'fail':
            rec['counterexamples'] = []
            confirmed = None; bound_only = True
            for f in res['failed']:
                tr = res['_traces'].get(f['id'], '')
                sched = schedule_of(tr)
                is_bound = ('unwinding assertion' in f['desc'] or 'VERIF model:' in f['desc'] or 'modelled bound' in f['desc'])
                path = os.path.join(replay_dir, '%s.%s.replay' % (ob.name, re.sub(r'[^A-Za-z0-9_.]', '_', f['id'])))
                try: rp = replay_tsan(rn, ob, path, sched) if 'data race' in f['desc'] else replay(rn, ob, sched, path)
                except BuildError as e: rp = dict(outcome='unconfirmed', how='native build failed: ' + str(e)[:400])
                ce = dict(property=f['id'], desc=f['desc'], schedule=sched[:80], replay=rp, replay_file=path, bound_property=is_bound)
                rec['counterexamples'].append(ce)
                if not is_bound: bound_only = False
                if rp['outcome'] == 'confirmed' and confirmed is None: confirmed = ce
            if confirmed:
                rec.update(verdict='VIOLATION', replay=confirmed['replay_file'], reason='%s; %s' % (confirmed['desc'], confirmed['replay']['how']))
            elif bound_only:
                rec.update(verdict='INCONCLUSIVE', reason='BOUND: ' + '; '.join(sorted(set(f['desc'] for f in res['failed']))[:3]))
            else:
                rec.update(verdict='INCONCLUSIVE', reason='UNCONFIRMED counterexample schedule (does not reproduce on real threads): ' + res['failed'][0]['desc'])
            return rec
        if mr.get('status') != 'ok' or mr.get('completed', 0) == 0:
            rec.update(verdict='VACUOUS', reason='no concrete run of the generated model reaches the end of the harness: ' + json.dumps(mr)[:300]); return rec
        rec['witness'] = '%d of %d concrete pseudo-random schedules of the generated model ran the harness to completion' % (mr['completed'], mr['runs'])
        rec['verdict'] = 'DISCHARGED'
        return rec
    finally:
        gate.release(ob.mem_gb)
        rec['wall_s'] = round(time.time() - t0, 1)
