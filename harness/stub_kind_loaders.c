/* Kind loaders replaced by sentinels: only StringDictionary::load's dispatch is encoded (h_generic_dispatch). */
#include <stdint.h>
#include "ir2c_rt.h"
static uint8_t verif_sent[256];
uint8_t *verif_sentinel(uint32_t kind) { return &verif_sent[kind & 0xff]; }
uint8_t *_ZN22StringDictionaryHASHHF4loadERSij(uint8_t *in, uint32_t o) { return verif_sentinel(11); }
uint8_t *_ZN26StringDictionaryHASHUFFDAC4loadERSi(uint8_t *in) { return verif_sentinel(114); }
uint8_t *_ZN23StringDictionaryHASHRPF4loadERSij(uint8_t *in, uint32_t o) { return verif_sentinel(12); }
uint8_t *_ZN25StringDictionaryHASHRPDAC4loadERSij(uint8_t *in, uint32_t o) { return verif_sentinel(124); }
uint8_t *_ZN19StringDictionaryPFC4loadERSi(uint8_t *in) { return verif_sentinel(211); }
uint8_t *_ZN20StringDictionaryRPFC4loadERSi(uint8_t *in) { return verif_sentinel(214); }
uint8_t *_ZN20StringDictionaryHTFC4loadERSi(uint8_t *in) { return verif_sentinel(221); }
uint8_t *_ZN21StringDictionaryHHTFC4loadERSi(uint8_t *in) { return verif_sentinel(222); }
uint8_t *_ZN22StringDictionaryRPHTFC4loadERSi(uint8_t *in) { return verif_sentinel(223); }
uint8_t *_ZN21StringDictionaryRPDAC4loadERSi(uint8_t *in) { return verif_sentinel(3); }
uint8_t *_ZN23StringDictionaryFMINDEX4loadERSi(uint8_t *in) { return verif_sentinel(4); }
uint8_t *_ZN19StringDictionaryXBW4loadERSi(uint8_t *in) { return verif_sentinel(5); }
