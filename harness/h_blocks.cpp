// StringDictionaryHASHRPDACBlocks' own code (routing of locate/extract over the blocks, extractTable's iterator,
// save/load, unsupported operations) decided sequentially (engine E1): the dictionary is assembled through its public
// "loaded parts" constructor from stand-in blocks (fake_hashrpdac.h: a plain reference dictionary per block), for a
// symbolic valid input set and EVERY way of cutting it into consecutive non-empty blocks.
#include "verif.h"
#include <libcdsBasics.h>
#include "utils/Utils.h"
#include "iterators/IteratorDictString.h"
#include "fake_hashrpdac.h"
#include "StringDictionaryHASHRPDACBlocks.h"
#include "StringDictionaryHASHRPDACBlocks.cpp"
#ifndef NSTR
#define NSTR 3
#endif
#ifndef LMAX
#define LMAX 2
#endif
#ifndef VS_BOUND
#define VS_BOUND 96
#endif
struct In { uchar s[NSTR][LMAX + 2]; uint lens[NSTR]; uint first[NSTR + 1]; uint nb; };
static StringDictionaryHASHRPDACBlocks *assemble(In &in) {
  for (int i = 0; i < NSTR; i++) {
    uint len = nondet_uchar(); verif_assume(len >= 1 && len <= LMAX);
    for (int j = 0; j < LMAX + 2; j++) in.s[i][j] = 0;
    for (int j = 0; j < LMAX; j++) if ((uint)j < len) { uchar c = nondet_uchar(); verif_assume(c >= 2 && c <= 0xFE); in.s[i][j] = c; }
    in.lens[i] = len;
  }
  for (int i = 0; i + 1 < NSTR; i++) verif_assume(strcmp((char *)in.s[i], (char *)in.s[i + 1]) < 0);
  // every cut: string i > 0 starts a new block iff the solver says so
  in.nb = 0; in.first[in.nb++] = 0;
  for (int i = 1; i < NSTR; i++) if (nondet_uchar() & 1) in.first[in.nb++] = i;
  in.first[in.nb] = NSTR;
  std::vector<StringDictionary *> parts; std::vector<std::string> samples; std::vector<unsigned long> starts;
  uint maxl = 0;
  for (uint b = 0; b < NSTR; b++) if (b < in.nb) {
    size_t bytes = 0;
    for (uint i = in.first[b]; i < in.first[b + 1]; i++) bytes += in.lens[i] + 1;
    uchar *text = new uchar[bytes]; size_t p = 0;
    for (uint i = in.first[b]; i < in.first[b + 1]; i++) { for (uint j = 0; j <= in.lens[i]; j++) text[p + j] = in.s[i][j]; p += in.lens[i] + 1; if (in.lens[i] > maxl) maxl = in.lens[i]; }
    parts.push_back(new StringDictionaryHASHRPDAC(text, bytes, in.first[b + 1] - in.first[b]));
    samples.emplace_back((char *)in.s[in.first[b]], in.lens[in.first[b]]);
    starts.push_back(in.first[b]);
  }
  return new StringDictionaryHASHRPDACBlocks(1, NSTR, maxl, std::move(parts), std::move(samples), std::move(starts));
}
static bool streq(const uchar *a, const uchar *b) { return strcmp((const char *)a, (const char *)b) == 0; }

// C01/C02/C15 on the block kind: global IDs are 1..n in input order whatever the cut
extern "C" void h_blocks_queries() {
  In in;
  StringDictionaryHASHRPDACBlocks *d = assemble(in);
  verif_assert(d->numElements() == NSTR, 1);
  uint k = nondet_uchar(); verif_assume(k < NSTR);
  uchar q[LMAX + 2];
  for (int j = 0; j < LMAX + 2; j++) q[j] = in.s[k][j];
  verif_assert(d->locate(q, in.lens[k]) == k + 1, 2);
  uint len = 77;
  uchar *e = d->extract(k + 1, &len);
  verif_assert(e != 0 && len == in.lens[k] && streq(e, in.s[k]), 3);
  delete[] e;
  // non-members and bad ids
  uchar x[LMAX + 3]; uint xl = nondet_uchar(); verif_assume(xl >= 1 && xl <= LMAX + 1);
  for (int j = 0; j < LMAX + 3; j++) x[j] = 0;
  for (uint j = 0; j < LMAX + 1; j++) if (j < xl) { uchar c = nondet_uchar(); verif_assume(c >= 2 && c <= 0xFE); x[j] = c; }
  int m = 0; for (int i = 0; i < NSTR; i++) if (streq(in.s[i], x)) m = i + 1;
  verif_assert(d->locate(x, xl) == (unsigned long)m, 4);
  size_t bad = nondet_ulong(); verif_assume(bad == 0 || bad > NSTR);
  uint bl = 77;
  verif_assert(d->extract(bad, &bl) == 0 && bl == 0, 5);
  verif_witness();
}
// C13: table scan over the blocks
extern "C" void h_blocks_table() {
  In in;
  StringDictionaryHASHRPDACBlocks *d = assemble(in);
  IteratorDictString *it = d->extractTable();
  verif_assert(it != 0, 1);
  int n = 0;
  for (int r = 0; r < NSTR + 1; r++) {
    if (!it->hasNext()) break;
    uint len = 77; uchar *e = it->next(&len);
    verif_assert(n < NSTR, 2);
    if (n < NSTR) verif_assert(e != 0 && len == in.lens[n] && streq(e, in.s[n]), 3);
    delete[] e; n++;
  }
  verif_assert(n == NSTR && !it->hasNext(), 4);
  delete it;
  verif_witness();
}
// C06/C16: save -> own loader -> same answers, exact consumption; wrong tag -> NULL; unsupported operations
extern "C" void h_blocks_saveload() {
  In in;
  StringDictionaryHASHRPDACBlocks *d = assemble(in);
  d->save(*verif_ostream(0));
  d->save(*verif_ostream(1));
  verif_assert(verif_stream_equal(0, 1, VS_BOUND), 1);
  StringDictionary *r = StringDictionaryHASHRPDACBlocks::load(*verif_istream(0), 0);
  verif_assert(r != 0, 2);
  if (r) {
    verif_assert(verif_stream_consumed(0) == verif_stream_written(0) && !verif_stream_failed(0), 3);
    verif_assert(r->numElements() == NSTR && r->maxLength() == d->maxLength(), 4);
    uint k = nondet_uchar(); verif_assume(k < NSTR);
    uchar q[LMAX + 2];
    for (int j = 0; j < LMAX + 2; j++) q[j] = in.s[k][j];
    verif_assert(r->locate(q, in.lens[k]) == k + 1, 5);
    uint len = 77; uchar *e = r->extract(k + 1, &len);
    verif_assert(e != 0 && len == in.lens[k] && streq(e, in.s[k]), 6);
    delete[] e;
    r->save(*verif_ostream(2));
    verif_assert(verif_stream_equal(0, 2, VS_BOUND), 7);
    uchar p[3] = {nondet_uchar(), 0, 0}; verif_assume(p[0] >= 2);
    verif_assert(r->locatePrefix(p, 1) == 0 && r->locateSubstr(p, 1) == 0 && r->extractPrefix(p, 1) == 0 && r->extractSubstr(p, 1) == 0, 8);
    uint rl = 77;
    verif_assert(r->locateRank(nondet_uint()) == 0 && r->extractRank(nondet_uint(), &rl) == 0, 9);
  }
  verif_witness();
}
