// Stand-in for the per-block builder, substituted BY NAME for StringDictionaryHASHRPDAC when the real
// StringDictionaryHASHRPDACBlocks.cpp is compiled into a harness (the real class pulls in Re-Pair, which is
// outside solver reach).  It is a plain reference dictionary over the block's own text: a pure function of the
// iterator it is given, which is what C09 needs the real builder to be (see DESIGN.md 3/C09).
#ifndef _STRINGDICTIONARY_HASHRPDAC_H
#define _STRINGDICTIONARY_HASHRPDAC_H
#include "StringDictionary.h"
#include "iterators/IteratorDictStringPlain.h"
class StringDictionaryHASHRPDAC : public StringDictionary {
public:
  uchar *text;       // the block's NUL-separated strings (not owned when built from an iterator)
  size_t bytes;
  bool owned;
  StringDictionaryHASHRPDAC() : text(0), bytes(0), owned(false) { type = HASHRPDAC; elements = 0; maxlength = 0; }
  StringDictionaryHASHRPDAC(IteratorDictString *it, uint, uint) {
    IteratorDictStringPlain *p = (IteratorDictStringPlain *)it;
    text = p->getPlainText(); bytes = p->size(); owned = false;
    type = HASHRPDAC; elements = 0; maxlength = 0;
    for (size_t i = 0; i < bytes; i++) if (text[i] == 0) elements++;
    delete it;       // the real builder consumes its iterator
  }
  // block over an owned copy of its text (used by the sequential harness)
  StringDictionaryHASHRPDAC(uchar *t, size_t b, size_t n) : text(t), bytes(b), owned(true) { type = HASHRPDAC; elements = n; maxlength = 0; }
  ~StringDictionaryHASHRPDAC() { if (owned) delete[] text; }
  unsigned long locate(uchar *str, uint strLen) {
    size_t pos = 0;
    for (size_t k = 1; k <= elements; k++) {
      size_t l = strlen((char *)text + pos);
      if (l == strLen && memcmp(text + pos, str, l) == 0) return k;
      pos += l + 1;
    }
    return 0;
  }
  uchar *extract(size_t id, uint *strLen) {
    if (id == 0 || id > elements) { *strLen = 0; return 0; }
    size_t pos = 0;
    for (size_t k = 1; k < id; k++) pos += strlen((char *)text + pos) + 1;
    size_t l = strlen((char *)text + pos);
    uchar *s = new uchar[l + 1];
    memcpy(s, text + pos, l + 1);
    *strLen = l;
    return s;
  }
  IteratorDictID *locatePrefix(uchar *, uint) { return 0; }
  IteratorDictID *locateSubstr(uchar *, uint) { return 0; }
  uint locateRank(uint) { return 0; }
  IteratorDictString *extractPrefix(uchar *, uint) { return 0; }
  IteratorDictString *extractSubstr(uchar *, uint) { return 0; }
  uchar *extractRank(uint, uint *) { return 0; }
  IteratorDictString *extractTable() { return 0; }
  size_t getSize() { return bytes; }
  void save(std::ostream &out) {
    saveValue<uint32_t>(out, HASHRPDAC);
    saveValue<uint64_t>(out, elements);
    saveValue<uint64_t>(out, bytes);
    saveValue<uchar>(out, text, bytes);
  }
  static StringDictionary *load(std::istream &in, uint = 0) {
    if (loadValue<uint32_t>(in) != HASHRPDAC) return 0;
    StringDictionaryHASHRPDAC *d = new StringDictionaryHASHRPDAC();
    d->elements = loadValue<uint64_t>(in);
    d->bytes = loadValue<uint64_t>(in);
    d->text = loadValue<uchar>(in, d->bytes);
    d->owned = true;
    return d;
  }
};
#endif
