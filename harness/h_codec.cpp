// C17: variable-byte codec and packed integer array (LogSequence), leaf kernels, fully symbolic.
#include "verif.h"
#include <libcdsBasics.h>
#include "utils/Utils.h"
#include "utils/VByte.h"
#include "utils/LogSequence.h"
#include <vector>

// VByte: decode(encode(v)) == v for all 2^32 values, same byte count, <= 5 bytes written
extern "C" void h_vbyte_roundtrip() {
  uint v = nondet_uint();
  uchar buf[8];
  for (int i = 0; i < 8; i++) buf[i] = 0x5A;
  uint n = VByte::encode(v, buf);
  verif_assert(n >= 1 && n <= 5, 1);
  verif_assert(buf[5] == 0x5A && buf[6] == 0x5A && buf[7] == 0x5A, 2);
  // continuation structure: only the last byte has the stop bit
  for (uint i = 0; i < 5; i++) if (i < n) verif_assert(((buf[i] & 0x80) != 0) == (i == n - 1), 3);
  uint w = 0xDEADBEEF;
  uint m = VByte::decode(&w, buf);
  verif_assert(m == n, 4);
  verif_assert(w == v, 5);
  // minimal length
  verif_assert((v < 128u) == (n == 1), 6);
  verif_assert((v >= (1u << 28)) == (n == 5), 7);
  verif_witness();
}

// the header-only twin used by the hash kinds
extern "C" void h_vb2_roundtrip() {
  uint v = nondet_uint();
  uchar buf[8];
  for (int i = 0; i < 8; i++) buf[i] = 0x5A;
  uint n = encodeVB2(v, buf);
  verif_assert(n >= 1 && n <= 5, 1);
  verif_assert(buf[5] == 0x5A, 2);
  uint w = 1;
  uint m = decodeVB2(&w, buf);
  verif_assert(m == n && w == v, 3);
  // both codecs agree byte for byte
  uchar buf2[8];
  uint n2 = VByte::encode(v, buf2);
  verif_assert(n2 == n, 4);
  for (uint i = 0; i < 5; i++) if (i < n) verif_assert(buf[i] == buf2[i], 5);
  verif_witness();
}

#ifndef CAP
#define CAP 3      // entries
#endif
#ifndef WBITS
#define WBITS 0    // 0 = symbolic width 1..64
#endif
// LogSequence(numbits, capacity): after setField(p,v) getField(p)==v, other fields unchanged,
// also when the field held a different value before (overwrite), for every width 1..64
extern "C" void h_logseq_setget() {
  uint w = WBITS ? WBITS : nondet_uchar();
  verif_assume(w >= 1 && w <= 64);
  LogSequence *ls = new LogSequence(w, CAP);
  size_t maxv = (w == 64) ? ~(size_t)0 : (((size_t)1 << w) - 1);
  size_t shadow[CAP];
  for (int i = 0; i < CAP; i++) shadow[i] = 0;
  // two rounds of stores at symbolic positions (second round overwrites)
  for (int r = 0; r < 3; r++) {
    size_t p = nondet_uchar(); verif_assume(p < CAP);
    size_t v = nondet_ulong(); verif_assume(v <= maxv);
    ls->setField(p, v);
    shadow[p] = v;
    for (int i = 0; i < CAP; i++) verif_assert(ls->getField(i) == shadow[i], 10 + r);
  }
  verif_assert(ls->getNumberOfElements() == CAP, 2);
  delete ls;
  verif_witness();
}

// LogSequence(vector, bits) + save + LogSequence(istream): same contents, bytes consumed == written,
// image deterministic (second save identical)
extern "C" void h_logseq_saveload() {
  uint w = WBITS ? WBITS : nondet_uchar();
  verif_assume(w >= 1 && w <= 64);
  size_t maxv = (w == 64) ? ~(size_t)0 : (((size_t)1 << w) - 1);
  std::vector<size_t> v;
  size_t vals[CAP];
  for (int i = 0; i < CAP; i++) { vals[i] = nondet_ulong(); verif_assume(vals[i] <= maxv); v.push_back(vals[i]); }
  LogSequence *ls = new LogSequence(&v, w);
  for (int i = 0; i < CAP; i++) verif_assert(ls->getField(i) == vals[i], 1);
  ls->save(*verif_ostream(0));
  ls->save(*verif_ostream(1));
  verif_assert(verif_stream_equal(0, 1, 9 + 8 * ((CAP * 64 + 63) / 64)), 2);
  LogSequence *l2 = new LogSequence(*verif_istream(0));
  verif_assert(verif_stream_consumed(0) == verif_stream_written(0), 3);
  verif_assert(!verif_stream_failed(0), 4);
  verif_assert(l2->getNumberOfElements() == CAP && l2->getNumbits() == w, 5);
  for (int i = 0; i < CAP; i++) verif_assert(l2->getField(i) == vals[i], 6);
  l2->save(*verif_ostream(2));
  verif_assert(verif_stream_equal(0, 2, 9 + 8 * ((CAP * 64 + 63) / 64)), 7);
  delete ls; delete l2;
  verif_witness();
}

// libcds 32-bit get_field/set_field (used by DAC / RePair / bit sequences)
extern "C" void h_cds_fields() {
  uint len = nondet_uchar(); verif_assume(len >= 1 && len <= 32);
  uint A[4] = {0, 0, 0, 0};
  uint shadow[3] = {0, 0, 0};
  uint maxv = len == 32 ? ~0u : ((1u << len) - 1);
  for (int r = 0; r < 3; r++) {
    size_t p = nondet_uchar(); verif_assume(p < 3);
    uint v = nondet_uint(); verif_assume(v <= maxv);
    set_field(A, len, p, v);
    shadow[p] = v;
    for (int i = 0; i < 3; i++) verif_assert(get_field(A, len, i) == shadow[i], 1 + r);
  }
  verif_assert(A[3] == 0, 5);
  // bits(): smallest b with n < 2^b
  uint n = nondet_uint();
  uint b = bits(n);
  verif_assert(b <= 32, 6);
  verif_assert(b == 32 || n < (1u << b), 7);
  verif_assert(b == 0 || n >= (1u << (b - 1)), 8);
  // bitset/bitget/bitclean
  uint B[2] = {nondet_uint(), nondet_uint()};
  uint B0[2] = {B[0], B[1]};
  size_t q = nondet_uchar(); verif_assume(q < 64);
  bitset(B, q);
  verif_assert(bitget(B, q) == 1, 9);
  for (size_t i = 0; i < 64; i++) if (i != q) verif_assert(bitget(B, i) == bitget(B0, i), 10);
  bitclean(B, q);
  verif_assert(bitget(B, q) == 0, 11);
  verif_assert(popcount((int)B0[0]) == (uint)__builtin_popcount(B0[0]), 12);
  verif_witness();
}
