// C09 (and the constructor half of C11): the REAL StringDictionaryHASHRPDACBlocks constructor and the REAL
// WorkerPool under every schedule within the bounds.  The per-block builder is replaced by name (fake_hashrpdac.h).
#include <functional>
#include <deque>
#include "verif.h"
#ifndef QCAP
#define QCAP 3
#endif
namespace std {
template <> class deque<function<void()>, allocator<function<void()>>> {   // bounded FIFO, see h_pool.cpp
  function<void()> slots[QCAP];
  unsigned long head = 0, tail = 0;
public:
  void push_back(const function<void()> &f) { verif_assert(tail < QCAP, 900); verif_assume(tail < QCAP); slots[tail] = f; tail++; }
  bool empty() const { return head == tail; }
  function<void()> &front() { return slots[head]; }
  void pop_front() { slots[head] = nullptr; head++; }
};
}
#include <libcdsBasics.h>
#include "utils/Utils.h"
#include "iterators/IteratorDictString.h"
#include "fake_hashrpdac.h"
#define private public
#include "StringDictionaryHASHRPDACBlocks.h"
#undef private
#include "StringDictionaryHASHRPDACBlocks.cpp"       // the real constructor, compiled against the stand-in builder

#ifndef NSTR
#define NSTR 2
#endif
#ifndef LMAX
#define LMAX 1
#endif
#ifndef THREADS
#define THREADS 1
#endif
static uchar strs[NSTR][LMAX + 1];
static uint lens[NSTR];
static uchar *buf; static size_t tot; static unsigned long cut;
extern "C" void h_blocks_setup() {
  // symbolic valid input (sorted, distinct, bytes 0x02..0xFE) and symbolic cut size
  tot = 0;
  for (int i = 0; i < NSTR; i++) {
    uint len = nondet_uchar(); verif_assume(len >= 1 && len <= LMAX);
    for (int j = 0; j <= LMAX; j++) strs[i][j] = 0;
    for (int j = 0; j < LMAX; j++) if ((uint)j < len) { uchar c = nondet_uchar(); verif_assume(c >= 2 && c <= 0xFE); strs[i][j] = c; }
    lens[i] = len; tot += len + 1;
  }
  for (int i = 0; i + 1 < NSTR; i++) verif_assume(strcmp((char *)strs[i], (char *)strs[i + 1]) < 0);
  buf = new uchar[NSTR * (LMAX + 1)];
  size_t p = 0;
  for (int i = 0; i < NSTR; i++) { for (uint j = 0; j <= lens[i]; j++) buf[p + j] = strs[i][j]; p += lens[i] + 1; }
  cut = nondet_uchar(); verif_assume(cut <= NSTR * (LMAX + 1));
}
extern "C" void h_blocks_par() {
  IteratorDictStringPlain *it = new IteratorDictStringPlain(buf, tot);
  it->keep_buffer();
  StringDictionaryHASHRPDACBlocks *d = new StringDictionaryHASHRPDACBlocks(it, 0, 0, cut, THREADS);
  // sequential specification of the cut: a block is closed when its size exceeds cut or the input ends
  size_t exp_off[NSTR], exp_size[NSTR], exp_first[NSTR], nblocks = 0, acc = 0, off = 0;
  bool fresh = true;
  for (int i = 0; i < NSTR; i++) {
    if (fresh) { exp_first[nblocks] = i; fresh = false; }
    acc += lens[i] + 1;
    if (i == NSTR - 1 || acc > cut) { exp_off[nblocks] = off; exp_size[nblocks] = acc; nblocks++; off += acc; acc = 0; fresh = true; }
  }
  verif_assert(d->parts.size() == nblocks, 1);
  verif_assert(d->starting_indexes.size() == nblocks && d->cut_samples.size() == nblocks, 2);
  verif_assert(d->numElements() == NSTR, 3);
  for (size_t b = 0; b < NSTR; b++)
    if (b < nblocks && b < d->parts.size()) {
      StringDictionaryHASHRPDAC *p = (StringDictionaryHASHRPDAC *)d->parts[b];
      verif_assert(p != 0, 4);                                       // every block complete before the constructor returns
      if (p) verif_assert(p->text == buf + exp_off[b] && p->bytes == exp_size[b], 5);   // blocks in input order
      verif_assert(d->starting_indexes[b] == exp_first[b], 6);
      verif_assert(d->cut_samples[b].size() == lens[exp_first[b]] && memcmp(d->cut_samples[b].data(), strs[exp_first[b]], lens[exp_first[b]]) == 0, 7);
    }
  verif_witness();
}
