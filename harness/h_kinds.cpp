// Cross-kind guards that are evaluated before any kind-specific state is touched, so they reach
// all 13 kinds: ID-range guard of extract (C02), unsupported operations (C16), loader tag checks (C16, C06).
#include "verif.h"
#include <libcdsBasics.h>
#include "utils/Utils.h"
#include "StringDictionary.h"
#include "StringDictionaryPFC.h"
#include "StringDictionaryRPFC.h"
#include "StringDictionaryHTFC.h"
#include "StringDictionaryHHTFC.h"
#include "StringDictionaryRPHTFC.h"
#include "StringDictionaryRPDAC.h"
#include "StringDictionaryHASHHF.h"
#include "StringDictionaryHASHRPF.h"
#include "StringDictionaryHASHUFFDAC.h"
#include "StringDictionaryHASHRPDAC.h"
#include "StringDictionaryFMINDEX.h"
#include "StringDictionaryXBW.h"

#ifndef KIND
#define KIND StringDictionaryPFC
#define KTAG PFC
#endif
#ifndef LOADCALL
#define LOADCALL(in) KIND::load(in)
#endif

// a default-constructed dictionary of the kind whose element count is set to an arbitrary value:
// the guards under test must decide on (id, elements) alone
struct Probe : public KIND {
  Probe() : KIND() {}
  void setElements(size_t n) { this->elements = n; }
};

static void mk_pattern(uchar *q, uint *ql) {
  uint len = nondet_uchar(); verif_assume(len >= 1 && len <= 3);
  for (int j = 0; j < 5; j++) q[j] = 0;
  for (uint j = 0; j < 3; j++) if (j < len) { uchar c = nondet_uchar(); verif_assume(c >= 2 && c <= 0xFE); q[j] = c; }
  *ql = len;
}

// C02: extract(0) and extract(id > elements) return NULL with length 0 for every element count
extern "C" void h_kind_extract_guard() {
  Probe *p = new Probe();
  size_t n = nondet_ulong();
  p->setElements(n);
  size_t id = nondet_ulong();
  verif_assume(id == 0 || id > n);
  uint len = 77;
  uchar *e = p->extract(id, &len);
  verif_assert(e == 0, 1);
  verif_assert(len == 0, 2);
  verif_witness();
}

// C16: operations the kind does not provide return NULL / NORESULT and leave the pattern alone
extern "C" void h_kind_unsupported() {
  Probe *p = new Probe();
  p->setElements(nondet_ulong());
  uchar q[5], q0[5]; uint ql;
  mk_pattern(q, &ql);
  for (int j = 0; j < 5; j++) q0[j] = q[j];
#ifdef NO_PREFIX
  verif_assert(p->locatePrefix(q, ql) == 0, 1);
  verif_assert(p->extractPrefix(q, ql) == 0, 2);
#endif
#ifdef NO_SUBSTR
  verif_assert(p->locateSubstr(q, ql) == 0, 3);
  verif_assert(p->extractSubstr(q, ql) == 0, 4);
#endif
#ifdef NO_RANK
  uint r = nondet_uint();
  verif_assert(p->locateRank(r) == 0, 5);
  uint len = 77;
  verif_assert(p->extractRank(r, &len) == 0, 6);
#endif
#ifdef NO_TABLE
  verif_assert(p->extractTable() == 0, 7);
#endif
  for (int j = 0; j < 5; j++) verif_assert(q[j] == q0[j], 8);
  verif_witness();
}

// C16: the kind's own loader returns NULL on any other tag, having consumed exactly the 4 tag bytes
extern "C" void h_kind_load_wrong_tag() {
  uint32_t tag = nondet_uint();
  verif_assume(tag != KTAG);
  verif_stream_put_u32(0, tag);
  for (int i = 0; i < 24; i++) verif_stream_put(0, nondet_uchar());
  std::istream *in = verif_istream(0);
  StringDictionary *d = LOADCALL(*in);
  verif_assert(d == 0, 1);
  verif_assert(verif_stream_consumed(0) == 4, 2);
  verif_witness();
}

// C16/C06: the generic loader selects the kind by the image's tag, for all 2^32 tags; kind loaders are replaced
// by stubs that return a sentinel naming the kind (stub_kind_loaders.c), so only the dispatch itself is encoded
extern "C" StringDictionary *verif_sentinel(uint32_t kind);
extern "C" void h_generic_dispatch() {
  uint32_t tag = nondet_uint();
  uint opt = nondet_uint();
  verif_stream_put_u32(0, tag);
  for (int i = 0; i < 8; i++) verif_stream_put(0, nondet_uchar());
  StringDictionary *d = StringDictionary::load(*verif_istream(0), opt);
  bool known = tag == HASHHF || tag == HASHUFFDAC || tag == HASHRPF || tag == HASHRPDAC || tag == PFC || tag == RPFC ||
               tag == HTFC || tag == HHTFC || tag == RPHTFC || tag == RPDAC || tag == FMINDEX || tag == DXBW;
  if (!known) verif_assert(d == 0, 1);
  else verif_assert(d == verif_sentinel(tag), 2);
  // the kind's loader is handed the stream rewound to the start of the image
  verif_assert(verif_stream_consumed(0) == 0, 3);
  verif_witness();
}
