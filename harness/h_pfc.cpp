// Whole-kind harnesses for StringDictionaryPFC (the kind whose constructor and queries are
// inside solver reach).  S = symbolic valid input set (common.h); BS = bucket size.
#include "common.h"
#include "StringDictionaryPFC.h"
#include "iterators/IteratorDictStringPFC.h"
#include "iterators/IteratorDictIDContiguous.h"

#ifndef BS
#define BS 2
#endif
#ifndef HIST
#define HIST 2
#endif
#ifndef BS2
#define BS2 3
#endif

struct Built {
  uchar s[NSTR][LMAX + 2];
  uint lens[NSTR];
  StringDictionaryPFC *d;
};

static StringDictionaryPFC *build(Built &b, uint bs) {
  size_t tot;
  uchar *buf = mk_input(b.s, b.lens, &tot);
  IteratorDictStringPlain *it = new IteratorDictStringPlain(buf, tot);
  b.d = new StringDictionaryPFC(it, bs);
  return b.d;
}
static StringDictionaryPFC *rebuild(Built &b, uint bs) {
  size_t tot = 0;
  for (int i = 0; i < NSTR; i++) tot += b.lens[i] + 1;
  uchar *buf = new uchar[tot];
  size_t p = 0;
  for (int i = 0; i < NSTR; i++) { for (uint j = 0; j <= b.lens[i]; j++) buf[p + j] = b.s[i][j]; p += b.lens[i] + 1; }
  return new StringDictionaryPFC(new IteratorDictStringPlain(buf, tot), bs);
}
static uint maxlen(Built &b) { uint m = 0; for (int i = 0; i < NSTR; i++) if (b.lens[i] > m) m = b.lens[i]; return m; }
static bool streq(const uchar *a, const uchar *b) { return strcmp((const char *)a, (const char *)b) == 0; }
static int member(Built &b, const uchar *q) { for (int i = 0; i < NSTR; i++) if (streq(b.s[i], q)) return i + 1; return 0; }

// ---- C01 (+C15): locate/extract bijection, fresh object
static void c01_queries(StringDictionary *d, Built &b) {
  verif_assert(d->numElements() == NSTR, 1);
  uint ml = maxlen(b);
  verif_assert(d->maxLength() >= ml && d->maxLength() <= ml + 1, 2);
  uint k = nondet_uchar(); verif_assume(k < NSTR);
  uchar q[LMAX + 2];
  for (int j = 0; j < LMAX + 2; j++) q[j] = b.s[k][j];
  size_t id = d->locate(q, b.lens[k]);
  verif_assert(id == k + 1, 3);               // order-preserving kind: ID = rank
  uint len = 77;
  uchar *e = d->extract(k + 1, &len);
  verif_assert(e != 0, 4);
  if (e) {
    verif_assert(len == b.lens[k], 5);
    verif_assert(e[len] == 0 && streq(e, b.s[k]), 6);
    // converse: locate(extract(i)) == i
    verif_assert(d->locate(e, len) == k + 1, 7);
    delete[] e;
  }
}
extern "C" void h_pfc_c01() {
  Built b;
  StringDictionaryPFC *d = build(b, BS);
  c01_queries(d, b);
  delete d;
  verif_witness();
}

// ---- C02: non-members give NORESULT, bad IDs give NULL/0
extern "C" void h_pfc_c02() {
  Built b;
  StringDictionaryPFC *d = build(b, BS);
  uchar q[LMAX + 3];
  uint ql = mk_query(q, LMAX + 1);
  int m = member(b, q);
  size_t id = d->locate(q, ql);
  verif_assert(id == (size_t)m, 1);           // 0 for every non-member, rank for members
  size_t bad = nondet_ulong();
  verif_assume(bad == 0 || bad > NSTR);
  uint len = 77;
  uchar *e = d->extract(bad, &len);
  verif_assert(e == 0 && len == 0, 2);
  delete d;
  verif_witness();
}

// ---- C03: IDs are ranks in unsigned-byte order; rank queries
extern "C" void h_pfc_c03() {
  Built b;
  StringDictionaryPFC *d = build(b, BS);
  uint i = nondet_uchar(), j = nondet_uchar();
  verif_assume(i >= 1 && i < j && j <= NSTR);
  uint li, lj;
  uchar *ei = d->extract(i, &li), *ej = d->extract(j, &lj);
  verif_assert(ei && ej, 1);
  if (ei && ej) {
    verif_assert(strcmp((char *)ei, (char *)ej) < 0, 2);
    verif_assert(streq(ei, b.s[i - 1]) && streq(ej, b.s[j - 1]), 3);
    verif_assert(d->locate(ei, li) < d->locate(ej, lj), 4);
  }
  uint k = nondet_uchar(); verif_assume(k >= 1 && k <= NSTR);
  verif_assert(d->locateRank(k) == k, 5);
  uint lr;
  uchar *er = d->extractRank(k, &lr);
  verif_assert(er && streq(er, b.s[k - 1]) && lr == b.lens[k - 1], 6);
  delete[] ei; delete[] ej; delete[] er;
  delete d;
  verif_witness();
}

// ---- C04: prefix search is exact
extern "C" void h_pfc_c04() {
  Built b;
  StringDictionaryPFC *d = build(b, BS);
  uchar p[LMAX + 3];
  uint pl = mk_query(p, LMAX + 1);
  // expected: contiguous range of members starting with p
  int first = 0, last = 0;
  for (int i = 0; i < NSTR; i++)
    if (b.lens[i] >= pl && is_prefix(p, pl, b.s[i])) { if (!first) first = i + 1; last = i + 1; }
  uchar p0[LMAX + 3];
  for (int j = 0; j < LMAX + 3; j++) p0[j] = p[j];
  IteratorDictIDContiguous *it = (IteratorDictIDContiguous *)d->locatePrefix(p, pl);
  verif_assert(it != 0, 1);
  if (it) {
    if (!first) {
      verif_assert(it->getLeftLimit() == NORESULT, 2);
      verif_assert(!it->hasNext(), 3);
    } else {
      verif_assert(it->getLeftLimit() == (size_t)first && it->getRightLimit() == (size_t)last, 4);
      int expect = first;
      for (int n = 0; n < NSTR + 1; n++) {
        if (!it->hasNext()) break;
        size_t id = it->next();
        verif_assert(id == (size_t)expect, 5);
        expect++;
      }
      verif_assert(expect == last + 1, 6);
      verif_assert(!it->hasNext(), 7);
    }
    delete it;
  }
  // the pattern buffer is untouched (C14 clause, cheap to assert here)
  for (int j = 0; j < LMAX + 3; j++) verif_assert(p[j] == p0[j], 8);
  delete d;
  verif_witness();
}

// ---- C04/C13: extractPrefix yields exactly those strings
extern "C" void h_pfc_c04x() {
  Built b;
  StringDictionaryPFC *d = build(b, BS);
  uchar p[LMAX + 3];
  uint pl = mk_query(p, LMAX + 1);
  int first = 0, last = 0;
  for (int i = 0; i < NSTR; i++)
    if (b.lens[i] >= pl && is_prefix(p, pl, b.s[i])) { if (!first) first = i + 1; last = i + 1; }
  IteratorDictString *it = d->extractPrefix(p, pl);
  if (!first) verif_assert(it == 0, 1);
  else {
    verif_assert(it != 0, 2);
    if (it) {
      int expect = first;
      for (int n = 0; n < NSTR + 1; n++) {
        if (!it->hasNext()) break;
        uint len = 77;
        uchar *e = it->next(&len);
        verif_assert(expect <= last, 3);
        if (expect <= last) {
          verif_assert(e && streq(e, b.s[expect - 1]), 4);
          verif_assert(len == b.lens[expect - 1], 5);
        }
        expect++;
      }
      verif_assert(expect == last + 1, 6);
      delete it;
    }
  }
  delete d;
  verif_witness();
}

// ---- C13: table scan
extern "C" void h_pfc_c13() {
  Built b;
  StringDictionaryPFC *d = build(b, BS);
  IteratorDictString *it = d->extractTable();
  verif_assert(it != 0, 1);
  int n = 0;
  for (int r = 0; r < NSTR + 1; r++) {
    if (!it->hasNext()) break;
    uint len = 77;
    uchar *e = it->next(&len);
    verif_assert(n < NSTR, 2);
    if (n < NSTR) {
      verif_assert(e && streq(e, b.s[n]), 3);
      verif_assert(len == b.lens[n], 4);      // reported length == strlen
      uint l2; uchar *x = d->extract(n + 1, &l2);
      verif_assert(x && streq(x, e), 5);
      delete[] x;
    }
    n++;
  }
  verif_assert(n == NSTR, 6);
  verif_assert(!it->hasNext(), 7);
  delete it;
  delete d;
  verif_witness();
}

// ---- C12: bucket size never changes answers (two objects, same S)
extern "C" void h_pfc_c12() {
  Built b;
  StringDictionaryPFC *d1 = build(b, BS);
  StringDictionaryPFC *d2 = rebuild(b, BS2);
  verif_assert(d1->numElements() == d2->numElements() && d1->maxLength() == d2->maxLength(), 1);
  uchar q[LMAX + 3];
  uint ql = mk_query(q, LMAX + 1);
  verif_assert(d1->locate(q, ql) == d2->locate(q, ql), 2);
  size_t id = nondet_ulong();
  uint l1 = 1, l2 = 2;
  uchar *e1 = d1->extract(id, &l1), *e2 = d2->extract(id, &l2);
  verif_assert((e1 == 0) == (e2 == 0) && l1 == l2, 3);
  if (e1 && e2) verif_assert(streq(e1, e2), 4);
  delete[] e1; delete[] e2;
#ifdef C12_PREFIX
  IteratorDictIDContiguous *i1 = (IteratorDictIDContiguous *)d1->locatePrefix(q, ql);
  IteratorDictIDContiguous *i2 = (IteratorDictIDContiguous *)d2->locatePrefix(q, ql);
  verif_assert(i1 && i2 && i1->getLeftLimit() == i2->getLeftLimit(), 5);
  if (i1 && i2 && i1->getLeftLimit() != NORESULT) verif_assert(i1->getRightLimit() == i2->getRightLimit(), 6);
  delete i1; delete i2;
#endif
  delete d1; delete d2;
  verif_witness();
}

// ---- C14: queries are pure (A, then B, then A again; pattern buffers intact; image unchanged)
static size_t one_query(StringDictionaryPFC *d, uint kind, uchar *q, uint ql, size_t id, uchar *out) {
  // returns a scalar answer; copies string answers to out
  for (int j = 0; j < LMAX + 2; j++) out[j] = 0;
  if (kind == 0) return d->locate(q, ql);
  if (kind == 1) {
    uint len = 0; uchar *e = d->extract(id, &len);
    if (e) { for (uint j = 0; j <= len && j < LMAX + 2; j++) out[j] = e[j]; delete[] e; return 1000 + len; }
    return 999;
  }
  IteratorDictIDContiguous *it = (IteratorDictIDContiguous *)d->locatePrefix(q, ql);
  size_t r = it->getLeftLimit() * 64 + (it->getLeftLimit() ? it->getRightLimit() : 0);
  delete it;
  return r;
}
extern "C" void h_pfc_c14() {
  Built b;
  StringDictionaryPFC *d = build(b, BS);
  uchar qa[LMAX + 3], qb[LMAX + 3], qa0[LMAX + 3], qb0[LMAX + 3];
  uint la = mk_query(qa, LMAX + 1), lb = mk_query(qb, LMAX + 1);
  for (int j = 0; j < LMAX + 3; j++) { qa0[j] = qa[j]; qb0[j] = qb[j]; }
  uint ka = nondet_uchar(), kb = nondet_uchar();
  verif_assume(ka < 3 && kb < 3);
#ifdef KA
  verif_assume(ka == KA);        // the obligation fixes the kind of query A (enumerated: 0 locate, 1 extract, 2 locatePrefix)
#endif
  size_t ida = nondet_ulong(), idb = nondet_ulong();
  uchar oa1[LMAX + 2], ob[LMAX + 2], oa2[LMAX + 2];
  size_t ra1 = one_query(d, ka, qa, la, ida, oa1);
  IteratorDictString *open_it = d->extractTable();   // an iterator left open across queries
  size_t rb = one_query(d, kb, qb, lb, idb, ob);
  (void)rb;
  size_t ra2 = one_query(d, ka, qa, la, ida, oa2);
  verif_assert(ra1 == ra2, 1);
  for (int j = 0; j < LMAX + 2; j++) verif_assert(oa1[j] == oa2[j], 2);
  for (int j = 0; j < LMAX + 3; j++) verif_assert(qa[j] == qa0[j] && qb[j] == qb0[j], 3);
  delete open_it;
  delete d;
  verif_witness();
}
// the dictionary's saved image is bit-identical before and after any single query (inductive step of "any history")
extern "C" void h_pfc_c14s() {
  Built b;
  StringDictionaryPFC *d = build(b, BS);
  d->save(*verif_ostream(0));
  uchar q[LMAX + 3], o[LMAX + 2];
  uint ql = mk_query(q, LMAX + 1);
  uint k = nondet_uchar(); verif_assume(k < 3);
  size_t id = nondet_ulong();
  one_query(d, k, q, ql, id, o);
  IteratorDictString *it = d->extractTable();
  if (it->hasNext()) { uint len; uchar *e = it->next(&len); delete[] e; }
  delete it;
  d->save(*verif_ostream(1));
  verif_assert(verif_stream_equal(0, 1, VS_BOUND), 1);
  delete d;
  verif_witness();
}

// ---- C16: unsupported operations fail safe and leave the object usable
extern "C" void h_pfc_c16() {
  Built b;
  StringDictionaryPFC *d = build(b, BS);
  uchar q[LMAX + 3];
  uint ql = mk_query(q, LMAX + 1);
  verif_assert(d->locateSubstr(q, ql) == 0, 1);
  verif_assert(d->extractSubstr(q, ql) == 0, 2);
  c01_queries(d, b);
  delete d;
  verif_witness();
}

// ---- C06/C08/C01(reloaded): save -> load -> same answers, self-delimiting, deterministic image
extern "C" void h_pfc_saveload() {
  Built b;
  StringDictionaryPFC *d = build(b, BS);
  d->save(*verif_ostream(0));
  d->save(*verif_ostream(1));
  verif_assert(verif_stream_equal(0, 1, VS_BOUND), 1);      // C08: second save identical
  unsigned long w = verif_stream_written(0);
#ifdef GENERIC_LOADER
  StringDictionary *r = StringDictionary::load(*verif_istream(0), 0);
#else
  StringDictionary *r = StringDictionaryPFC::load(*verif_istream(0));
#endif
  verif_assert(r != 0, 2);
  if (r) {
    verif_assert(verif_stream_consumed(0) == w, 3);          // C06: self-delimiting
    verif_assert(!verif_stream_failed(0), 4);
    c01_queries(r, b);
    r->save(*verif_ostream(2));
    verif_assert(verif_stream_equal(0, 2, VS_BOUND), 5);    // C08: re-saving a loaded image reproduces it
    delete r;
  }
  delete d;
  verif_witness();
}

// ---- C08: building twice gives byte-identical images (no uninitialised memory in the image)
extern "C" void h_pfc_build_twice() {
  Built b;
  StringDictionaryPFC *d1 = build(b, BS);
  StringDictionaryPFC *d2 = rebuild(b, BS);
  d1->save(*verif_ostream(0));
  d2->save(*verif_ostream(1));
  verif_assert(verif_stream_equal(0, 1, VS_BOUND), 1);
  delete d1; delete d2;
  verif_witness();
}

// ---- C07: any short history of API calls on one object, then destroy; all pointer checks on
extern "C" void h_pfc_c07hist() {
  Built b;
  StringDictionaryPFC *d = build(b, BS);
  for (int step = 0; step < HIST; step++) {
    uchar q[LMAX + 3], o[LMAX + 2];
    uint ql = mk_query(q, LMAX + 1);
    uint k = nondet_uchar(); verif_assume(k < 6);
    size_t id = nondet_ulong();
    if (k < 3) one_query(d, k, q, ql, id, o);
    else if (k == 3) {
      IteratorDictString *it = d->extractPrefix(q, ql);
      if (it) { for (int r = 0; r < NSTR + 1; r++) { if (!it->hasNext()) break; uint len; uchar *e = it->next(&len); verif_assert(e != 0 && e[len] == 0, 1); delete[] e; } delete it; }
    } else if (k == 4) {
      IteratorDictString *it = d->extractTable();
      for (int r = 0; r < NSTR + 1; r++) { if (!it->hasNext()) break; uint len; uchar *e = it->next(&len); verif_assert(e != 0 && e[len] == 0, 2); delete[] e; }
      delete it;
    } else {
      verif_stream_reset(0);
      d->save(*verif_ostream(0));
    }
  }
  delete d;
  verif_witness();
}

// ---- C06/C15/C08: header fields travel at their full width.  The image is written by hand with ARBITRARY
// header values (elements: all 2^64, maxlength / buckets / bucketsize: all 2^32), a fixed 2-byte text and a real
// LogSequence image; the loader must report exactly these values, consume exactly the image, and save must
// reproduce it byte for byte.  No query is issued (the header need not describe the 2-byte text): this decides
// only the field-by-field mirror of save and load, for values no whole-kind obligation can reach (>= 2^16 ...).
extern "C" void h_pfc_header() {
  uint64_t elements = nondet_ulong();
  uint32_t maxlength = nondet_uint(), buckets = nondet_uint(), bucketsize = nondet_uint();
  verif_stream_put_u32(0, PFC);
  verif_stream_put_u64(0, elements);
  verif_stream_put_u32(0, maxlength);
  verif_stream_put_u32(0, buckets);
  verif_stream_put_u32(0, bucketsize);
  verif_stream_put_u64(0, 2);
  verif_stream_put(0, 'a'); verif_stream_put(0, 0);
  std::vector<size_t> v; v.push_back(0); v.push_back(2);
  LogSequence *ls = new LogSequence(&v, 2);
  ls->save(*verif_ostream(0));
  delete ls;
  unsigned long w = verif_stream_written(0);
#ifdef GENERIC_LOADER
  StringDictionary *r = StringDictionary::load(*verif_istream(0), 0);
#else
  StringDictionary *r = StringDictionaryPFC::load(*verif_istream(0));
#endif
  verif_assert(r != 0, 1);
  if (r) {
    verif_assert(verif_stream_consumed(0) == w && !verif_stream_failed(0), 2);
    verif_assert(r->numElements() == elements, 3);
    verif_assert(r->maxLength() == maxlength, 4);
    r->save(*verif_ostream(1));
    verif_assert(verif_stream_equal(0, 1, VS_BOUND), 5);
    delete r;
  }
  verif_witness();
}

// ---- C06: images are self-delimiting - two images back to back in ONE stream load to two equivalent dictionaries
extern "C" void h_pfc_two_images() {
  Built b;
  StringDictionaryPFC *d = build(b, BS);
  d->save(*verif_ostream(0));
  unsigned long w = verif_stream_written(0);
  d->save(*verif_ostream(0));                 // second image appended to the same stream
  std::istream *in = verif_istream(0);        // rewinds once; the two loads below continue where the previous one stopped
  StringDictionary *r1 = StringDictionaryPFC::load(*in);
  verif_assert(r1 != 0 && verif_stream_consumed(0) == w, 1);
  StringDictionary *r2 = StringDictionaryPFC::load(*in);
  verif_assert(r2 != 0 && verif_stream_consumed(0) == 2 * w && !verif_stream_failed(0), 2);
  if (r2) c01_queries(r2, b);
  delete r1; delete r2; delete d;
  verif_witness();
}
