// Whole-kind harnesses for StringDictionaryRPDAC: the REAL constructor, DAC_VLS, RePair grammar consumer
// (expandRule, extractStringAndCompareDAC, extractPrefixAndCompareDAC), BitSequenceRG and LogSequence.  The
// Re-Pair *compressor* (IRePair::compress, outside solver reach) is replaced by name with a model that returns
// an arbitrary valid grammar of at most one rule in the compressor's own output format:
//   RULES=0  identity: no rule, sequence unchanged;
//   RULES=1  one rule (a,b) for a solver-chosen adjacent pair without the terminator 0, every non-overlapping
//            occurrence (left to right) replaced by the rule id, the second position turned into a skip marker.
// What the real compressor outputs is C20's subject (not applicable); every consumer must be correct for any
// valid grammar, which is what this model quantifies over (within one rule).
#include "common.h"
#include "StringDictionaryRPDAC.h"
#include "iterators/IteratorDictIDContiguous.h"
#ifndef RULES
#define RULES 0
#endif

int IRePair::compress(int *text, unsigned int length, size_t *csymbols, size_t *crules, Tdiccarray **rules) {
  int a_ = 0;
  for (unsigned i = 0; i < length; i++) if (text[i] > a_) a_ = text[i];
  alph = a_ + 1;
  Dicc = Dictionary::createDicc(0.75, 2);
  n = alph;
#if RULES >= 1
  unsigned p = nondet_uchar();
  verif_assume(p + 1 < length && text[p] > 0 && text[p + 1] > 0);
  int ra = text[p], rb = text[p + 1];
  Trule r; r.rule.left = ra; r.rule.right = rb; r.l = 2;
  Dictionary::insertRule(&Dicc, r);
  for (unsigned i = 0; i + 1 < length; i++)
    if (text[i] == ra && text[i + 1] == rb) { text[i] = n; text[i + 1] = -(int)(i + 2) - 1; i++; }
  n++;
#endif
  *csymbols = alph;
  *crules = n - alph;
  *rules = &Dicc;
  return 0;
}

struct Built { uchar s[NSTR][LMAX + 2]; uint lens[NSTR]; StringDictionaryRPDAC *d; };
static StringDictionaryRPDAC *build(Built &b) {
  size_t tot;
  uchar *buf = mk_input(b.s, b.lens, &tot);
  b.d = new StringDictionaryRPDAC(new IteratorDictStringPlain(buf, tot));
  return b.d;
}
static bool streq(const uchar *a, const uchar *b) { return strcmp((const char *)a, (const char *)b) == 0; }
static int member(Built &b, const uchar *q) { for (int i = 0; i < NSTR; i++) if (streq(b.s[i], q)) return i + 1; return 0; }

// C01/C03/C15: locate/extract bijection, IDs are ranks, metadata
extern "C" void h_rpdac_c01() {
  Built b;
  StringDictionaryRPDAC *d = build(b);
  verif_assert(d->numElements() == NSTR, 1);
  uint ml = 0; for (int i = 0; i < NSTR; i++) if (b.lens[i] > ml) ml = b.lens[i];
  verif_assert(d->maxLength() >= ml && d->maxLength() <= ml + 1, 2);
  uint k = nondet_uchar(); verif_assume(k < NSTR);
  uchar q[LMAX + 2];
  for (int j = 0; j < LMAX + 2; j++) q[j] = b.s[k][j];
  verif_assert(d->locate(q, b.lens[k]) == k + 1, 3);
  uint len = 77;
  uchar *e = d->extract(k + 1, &len);
  verif_assert(e != 0, 4);
  if (e) {
    verif_assert(len == b.lens[k] && e[len] == 0 && streq(e, b.s[k]), 5);
    verif_assert(d->locate(e, len) == k + 1, 6);
    delete[] e;
  }
  for (int j = 0; j < LMAX + 2; j++) verif_assert(q[j] == b.s[k][j], 7);     // C14: pattern intact
  verif_witness();
}
// C02: non-members, bad ids
extern "C" void h_rpdac_c02() {
  Built b;
  StringDictionaryRPDAC *d = build(b);
  uchar q[LMAX + 3], q0[LMAX + 3];
  uint ql = mk_query(q, LMAX + 1);
  for (int j = 0; j < LMAX + 3; j++) q0[j] = q[j];
  verif_assert(d->locate(q, ql) == (size_t)member(b, q), 1);
  for (int j = 0; j < LMAX + 3; j++) verif_assert(q[j] == q0[j], 2);
  size_t bad = nondet_ulong(); verif_assume(bad == 0 || bad > NSTR);
  uint len = 77;
  verif_assert(d->extract(bad, &len) == 0 && len == 0, 3);
  verif_witness();
}
// C04: prefix search
extern "C" void h_rpdac_c04() {
  Built b;
  StringDictionaryRPDAC *d = build(b);
  uchar p[LMAX + 3];
  uint pl = mk_query(p, LMAX + 1);
  int first = 0, last = 0;
  for (int i = 0; i < NSTR; i++)
    if (b.lens[i] >= pl && is_prefix(p, pl, b.s[i])) { if (!first) first = i + 1; last = i + 1; }
  IteratorDictIDContiguous *it = (IteratorDictIDContiguous *)d->locatePrefix(p, pl);
  verif_assert(it != 0, 1);
  if (it) {
    if (!first) { verif_assert(it->getLeftLimit() == NORESULT, 2); verif_assert(!it->hasNext(), 3); }
    else verif_assert(it->getLeftLimit() == (size_t)first && it->getRightLimit() == (size_t)last, 4);
    delete it;
  }
  verif_witness();
}
