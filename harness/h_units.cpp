// Leaf mechanisms named by the property anchors, verified with fully symbolic state.
#include "verif.h"
#include <libcdsBasics.h>
#include <BitString.h>
#include <BitSequence.h>
#include <BitSequenceRG.h>
#include "utils/Utils.h"
#include "utils/DAC_VLS.h"
#include "utils/DAC_BVLS.h"
#include "iterators/IteratorDictID.h"
#include "iterators/IteratorDictString.h"
#include "iterators/IteratorDictStringVector.h"
#include <vector>
#ifndef VS_BOUND
#define VS_BOUND 96
#endif
using namespace cds_static;
using namespace cds_utils;

// ------------------------------------------------------------------ DAC_VLS
// NSEQ sequences with the fixed lengths SEQLENS (shape enumerated by the obligations),
// symbols symbolic in [1, 2^DBITS), written with the -(i+1) end markers the dictionary
// constructors produce.  DACLEN selects the list length handed to the constructor:
// ic-1 is the length that covers every sequence; ic is also accepted by the constructor.
#ifndef NSEQ
#define NSEQ 2
#endif
#ifndef SEQLENS
#define SEQLENS {2, 1}
#endif
#ifndef MAXSEQ
#define MAXSEQ 2
#endif
#ifndef DBITS
#define DBITS 4
#endif
#ifndef DACLEN
#define DACLEN (ic - 1)
#endif
struct DacIn { uint syms[NSEQ][MAXSEQ]; int list[NSEQ * (MAXSEQ + 1)]; uint ic; };
static const uint seqlens[NSEQ] = SEQLENS;
static DAC_VLS *mk_dac(DacIn &in) {
  in.ic = 0;
  for (int i = 0; i < NSEQ; i++) {
    for (uint j = 0; j < seqlens[i]; j++) {
      uint v = nondet_uchar(); verif_assume(v >= 1 && v < (1u << DBITS));
      in.syms[i][j] = v; in.list[in.ic++] = (int)v;
    }
    in.list[in.ic++] = -(i + 1);
  }
  uint ic = in.ic;
  return new DAC_VLS(in.list, DACLEN, DBITS, MAXSEQ);
}
static void dac_check(DAC_VLS *d, DacIn &in, int base) {
  uint k = nondet_uchar(); verif_assume(k < NSEQ);
  uint *seq = 0;
  uint n = d->access(k + 1, &seq);
  verif_assert(n == seqlens[k], base + 1);
  for (uint j = 0; j < MAXSEQ; j++) if (j < seqlens[k] && j < n) verif_assert(seq[j] == in.syms[k][j], base + 2);
  delete[] seq;
  // level-wise traversal used by extractStringAndCompareDAC
  uint pos = k + 1, l = 0;
  for (uint j = 0; j < MAXSEQ + 1; j++) {
    if (pos == (uint)-1) break;
    uint v = d->access_next(l, &pos);
    verif_assert(l < seqlens[k], base + 3);
    if (l < seqlens[k]) verif_assert(v == in.syms[k][l], base + 4);
    l++;
  }
  verif_assert(l == seqlens[k] && pos == (uint)-1, base + 5);
}
extern "C" void h_dacvls_access() {
  DacIn in;
  DAC_VLS *d = mk_dac(in);
  verif_assert(d->getListLength() == NSEQ, 1);
  dac_check(d, in, 10);
  delete d;
  verif_witness();
}
extern "C" void h_dacvls_saveload() {
  DacIn in;
  DAC_VLS *d = mk_dac(in);
  d->save(*verif_ostream(0));
  d->save(*verif_ostream(1));
  verif_assert(verif_stream_equal(0, 1, VS_BOUND), 1);
  DAC_VLS *r = DAC_VLS::load(*verif_istream(0));
  verif_assert(r != 0, 2);
  verif_assert(verif_stream_consumed(0) == verif_stream_written(0) && !verif_stream_failed(0), 3);
  verif_assert(r->getListLength() == NSEQ, 4);
  dac_check(r, in, 20);
  r->save(*verif_ostream(2));
  verif_assert(verif_stream_equal(0, 2, VS_BOUND), 5);
  delete d; delete r;
  verif_witness();
}

// ------------------------------------------------------------------ DAC_BVLS
// byte sequences of fixed lengths SEQLENS laid out level by level exactly as
// StringDictionaryHASHUFFDAC does, handed to the public constructor
extern "C" void h_dacbvls() {
  uchar bytes[NSEQ][MAXSEQ];
  std::vector<uint> levelsIndex(MAXSEQ, 0), rankLevels(MAXSEQ + 1, 0), x(MAXSEQ, 0);
  uint tam = 0, nLevels = 0;
  for (int i = 0; i < NSEQ; i++) { tam += seqlens[i]; if (seqlens[i] > nLevels) nLevels = seqlens[i]; for (uint j = 0; j < seqlens[i]; j++) levelsIndex[j]++; }
  verif_assume(nLevels == MAXSEQ);
  for (uint i = 1; i < nLevels; i++) x[i] = x[i - 1] + levelsIndex[i - 1];
  for (uint i = 0; i < nLevels; i++) levelsIndex[i] = x[i];
  uchar *dacseq = new uchar[tam];
  BitString *bS = new BitString(tam);
  for (int i = 0; i < NSEQ; i++)
    for (uint j = 0; j < seqlens[i]; j++) {
      uchar b = nondet_uchar(); bytes[i][j] = b;
      dacseq[x[j]] = b;
      if (j + 1 < seqlens[i]) { bS->setBit(x[j], true); rankLevels[j]++; } else bS->setBit(x[j], false);
      x[j]++;
    }
  DAC_BVLS *d = new DAC_BVLS(tam, nLevels, &levelsIndex, &rankLevels, dacseq, bS);
  delete bS;
  uint k = nondet_uchar(); verif_assume(k < NSEQ);
  uint *seq = 0;
  uint n = d->access(k + 1, &seq);
  verif_assert(n == seqlens[k], 1);
  for (uint j = 0; j < MAXSEQ; j++) if (j < seqlens[k] && j < n) verif_assert(seq[j] == bytes[k][j], 2);
  delete[] seq;
#ifdef BVLS_SAVE
  d->save(*verif_ostream(0));
  d->save(*verif_ostream(1));
  verif_assert(verif_stream_equal(0, 1, VS_BOUND), 3);     // deterministic image, no stray memory
  DAC_BVLS *r = DAC_BVLS::load(*verif_istream(0));
  verif_assert(r != 0 && verif_stream_consumed(0) == verif_stream_written(0) && !verif_stream_failed(0), 4);
  uint *seq2 = 0;
  uint n2 = r->access(k + 1, &seq2);
  verif_assert(n2 == seqlens[k], 5);
  for (uint j = 0; j < MAXSEQ; j++) if (j < seqlens[k] && j < n2) verif_assert(seq2[j] == bytes[k][j], 6);
  delete[] seq2;
  r->save(*verif_ostream(2));
  verif_assert(verif_stream_equal(0, 2, VS_BOUND), 7);
  delete r;
#endif
  delete d;
  verif_witness();
}

// ------------------------------------------------------------------ BitSequenceRG (C19)
#ifndef NBITS
#define NBITS 33
#endif
#ifndef FACTOR
#define FACTOR 4
#endif
#define NWORDS (NBITS / 32 + 1)
static void mk_bits(uint *w) {
  for (uint i = 0; i < NWORDS; i++) w[i] = nondet_uint();
  // bits beyond NBITS are zero, as every builder in libCSD produces them
  for (uint i = NBITS; i < NWORDS * 32; i++) w[i / 32] &= ~(1u << (i % 32));
}
static uint ref_rank1(const uint *w, size_t i) { uint r = 0; for (size_t p = 0; p < NBITS; p++) if (p <= i && ((w[p / 32] >> (p % 32)) & 1)) r++; return r; }
// PART selects the clause (one solver query each): 1 access/rank/count, 2 select1, 3 select0, 4 selectNext1; 0 = all
#ifndef PART
#define PART 0
#endif
static void bitseq_check(BitSequence *bs, const uint *w, int base) {
  uint ones = ref_rank1(w, NBITS - 1);
  if (PART == 0 || PART == 1) {
    size_t i = nondet_ushort(); verif_assume(i < NBITS);
    uint r1 = ref_rank1(w, i);
    bool bit = (w[i / 32] >> (i % 32)) & 1;
    verif_assert(bs->access(i) == bit, base + 1);
    verif_assert(bs->rank1(i) == r1, base + 2);
    verif_assert(bs->rank0(i) == i + 1 - r1, base + 3);
    verif_assert(bs->countOnes() == ones && bs->getLength() == NBITS, base + 4);
  }
  // select: position of the j-th one / zero
  size_t j = nondet_ushort(); verif_assume(j >= 1 && j <= NBITS);
  if (PART == 0 || PART == 2) {
    if (j <= ones) {
      size_t p = bs->select1(j);
      verif_assert(p < NBITS, base + 5);
      if (p < NBITS) verif_assert(((w[p / 32] >> (p % 32)) & 1) && ref_rank1(w, p) == j, base + 6);
    } else verif_assert(bs->select1(j) >= NBITS, base + 7);          // "none": (size_t)-1 or length
  }
  if (PART == 0 || PART == 3) {
    if (j <= NBITS - ones) {
      size_t p = bs->select0(j);
      verif_assert(p < NBITS, base + 8);
      if (p < NBITS) verif_assert(!((w[p / 32] >> (p % 32)) & 1) && p + 1 - ref_rank1(w, p) == j, base + 9);
    } else verif_assert(bs->select0(j) >= NBITS, base + 10);
  }
  if (PART == 0 || PART == 4) {
    // selectNext1: first one at or after i
    size_t i = nondet_ushort(); verif_assume(i < NBITS);
    size_t nx = bs->selectNext1(i);
    size_t ref = NBITS;
    for (size_t p = NBITS; p-- > 0;) if (p >= i && ((w[p / 32] >> (p % 32)) & 1)) ref = p;
    if (ref < NBITS) verif_assert(nx == ref, base + 11); else verif_assert(nx >= NBITS, base + 12);
  }
}
extern "C" void h_bitseqrg() {
  uint w[NWORDS];
  mk_bits(w);
  BitSequenceRG *bs = new BitSequenceRG(w, NBITS, FACTOR);
  bitseq_check(bs, w, 0);
  delete bs;
  verif_witness();
}
extern "C" void h_bitseqrg_saveload() {
  uint w[NWORDS];
  mk_bits(w);
  BitSequenceRG *bs = new BitSequenceRG(w, NBITS, FACTOR);
  bs->save(*verif_ostream(0));
  bs->save(*verif_ostream(1));
  verif_assert(verif_stream_equal(0, 1, VS_BOUND), 1);
  BitSequence *r = BitSequence::load(*verif_istream(0));     // generic loader selects by header
  verif_assert(r != 0, 2);
  if (r) {
    verif_assert(verif_stream_consumed(0) == verif_stream_written(0) && !verif_stream_failed(0), 3);
    bitseq_check(r, w, 10);
    r->save(*verif_ostream(2));
    verif_assert(verif_stream_equal(0, 2, VS_BOUND), 4);
    delete r;
  }
  delete bs;
  verif_witness();
}
// BitString: set/get, save/load
extern "C" void h_bitstring() {
  BitString *b = new BitString((size_t)NBITS);
  bool shadow[NBITS];
  for (uint i = 0; i < NBITS; i++) shadow[i] = false;
  for (int r = 0; r < 3; r++) {
    size_t p = nondet_ushort(); verif_assume(p < NBITS);
    bool v = nondet_uchar() & 1;
    b->setBit(p, v); shadow[p] = v;
  }
  size_t q = nondet_ushort(); verif_assume(q < NBITS);
  verif_assert(b->getBit(q) == shadow[q], 1);
  verif_assert(b->getLength() == NBITS, 2);
  b->save(*verif_ostream(0));
  BitString *c = new BitString(*verif_istream(0));
  verif_assert(verif_stream_consumed(0) == verif_stream_written(0), 3);
  verif_assert(c->getLength() == NBITS && c->getBit(q) == shadow[q], 4);
  c->save(*verif_ostream(1));
  verif_assert(verif_stream_equal(0, 1, VS_BOUND), 5);
  delete b; delete c;
  verif_witness();
}

// ------------------------------------------------------------------ ID / string iterators (C13, C04)
#ifndef NIDS
#define NIDS 4
#endif
extern "C" void h_it_contiguous() {
  size_t left = nondet_ulong(), right = nondet_ulong();
  verif_assume((left == 0 && right == 0) || (left >= 1 && left <= right && right - left < NIDS));
  IteratorDictIDContiguous *it = new IteratorDictIDContiguous(left, right);
  size_t expect = left;
  for (int r = 0; r < NIDS + 1; r++) {
    if (!it->hasNext()) break;
    size_t id = it->next();
    verif_assert(left != 0, 1);                    // the empty stream yields nothing
    verif_assert(id == expect && id >= left && id <= right, 2);
    expect++;
  }
  verif_assert(!it->hasNext(), 3);
  if (left) verif_assert(expect == right + 1, 4);
  verif_assert(it->getLeftLimit() == left && it->getRightLimit() == right, 5);
  delete it;
  verif_witness();
}
extern "C" void h_it_duplicates() {
  // sorted ids >= 1 with the 0 sentinel the callers write at ids[num_occ]
  size_t n = nondet_uchar(); verif_assume(n >= 1 && n <= NIDS);
  size_t *ids = new size_t[NIDS + 1];
  size_t shadow[NIDS + 1];
  for (size_t i = 0; i < NIDS + 1; i++) { size_t v = nondet_ushort(); if (i < n) { verif_assume(v >= 1); if (i) verif_assume(v >= shadow[i - 1]); } else v = 0; ids[i] = v; shadow[i] = v; }
  IteratorDictIDDuplicates *it = new IteratorDictIDDuplicates(ids, n);
  size_t prev = 0; size_t cnt = 0;
  for (int r = 0; r < NIDS + 1; r++) {
    if (!it->hasNext()) break;
    size_t id = it->next();
    verif_assert(id > prev, 1);                    // strictly ascending: each id at most once
    bool found = false; for (size_t i = 0; i < NIDS; i++) if (i < n && shadow[i] == id) found = true;
    verif_assert(found, 2);
    prev = id; cnt++;
  }
  size_t distinct = 0; for (size_t i = 0; i < NIDS; i++) if (i < n && (i == 0 || shadow[i] != shadow[i - 1])) distinct++;
  verif_assert(cnt == distinct, 3);
  verif_assert(!it->hasNext(), 4);
  delete it;
  verif_witness();
}
extern "C" void h_it_nocontiguous() {
  size_t n = nondet_uchar(); verif_assume(n <= NIDS);
  size_t *ids = new size_t[NIDS];
  size_t shadow[NIDS];
  for (size_t i = 0; i < NIDS; i++) { ids[i] = shadow[i] = nondet_ushort(); }
  IteratorDictIDNoContiguous *it = new IteratorDictIDNoContiguous(ids, n);
  size_t cnt = 0;
  for (int r = 0; r < NIDS + 1; r++) {
    if (!it->hasNext()) break;
    size_t id = it->next();
    verif_assert(cnt < n && id == shadow[cnt], 1);
    cnt++;
  }
  verif_assert(cnt == n, 2);
  delete it;
  verif_witness();
}
extern "C" void h_it_stringvector() {
  uchar strs[3][4];
  uint lens[3];
  std::vector<uchar *> v;
  for (int i = 0; i < 3; i++) {
    uint len = nondet_uchar(); verif_assume(len <= 3);
    for (uint j = 0; j < 4; j++) { uchar c = nondet_uchar(); verif_assume(c != 0); strs[i][j] = j < len ? c : 0; }
    lens[i] = len; v.push_back(strs[i]);
  }
  IteratorDictStringVector *it = new IteratorDictStringVector(std::move(v), 3);
  int n = 0;
  for (int r = 0; r < 4; r++) {
    if (!it->hasNext()) break;
    uint len = 77;
    uchar *e = it->next(&len);
    verif_assert(n < 3, 1);
    if (n < 3) { verif_assert(e == strs[n], 2); verif_assert(len == lens[n], 3); }
    n++;
  }
  verif_assert(n == 3 && !it->hasNext(), 4);
  delete it;
  verif_witness();
}

// ------------------------------------------------------------------ Reallocate (C07)
#ifndef RLEN
#define RLEN 4
#endif
extern "C" void h_reallocate() {
  uchar *a = new uchar[RLEN];
  uchar shadow[RLEN];
  for (int i = 0; i < RLEN; i++) a[i] = shadow[i] = nondet_uchar();
  size_t nl = Reallocate(&a, RLEN);
  verif_assert(nl == 2 * RLEN, 1);
  for (int i = 0; i < RLEN; i++) verif_assert(a[i] == shadow[i], 2);
  for (int i = RLEN; i < 2 * RLEN; i++) verif_assert(a[i] == 0, 3);
  a[2 * RLEN - 1] = 1;               // the new extent is writable
  delete[] a;
  int *b = new int[RLEN];
  int sb[RLEN];
  for (int i = 0; i < RLEN; i++) b[i] = sb[i] = (int)nondet_uint();
  size_t nb = Reallocate(&b, RLEN);
  verif_assert(nb == 2 * RLEN, 4);
  for (int i = 0; i < RLEN; i++) verif_assert(b[i] == sb[i], 5);
  for (int i = RLEN; i < 2 * RLEN; i++) verif_assert(b[i] == 0, 6);
  delete[] b;
  verif_witness();
}
