// Shared harness vocabulary: the symbolic valid input set S of the properties.
#ifndef HARNESS_COMMON_H
#define HARNESS_COMMON_H
#include "verif.h"
#include <libcdsBasics.h>
#include "utils/Utils.h"
#include "iterators/IteratorDictString.h"
#include "iterators/IteratorDictStringPlain.h"

#ifndef NSTR
#define NSTR 2          // number of strings
#endif
#ifndef LMAX
#define LMAX 2          // maximal string length
#endif
#ifndef CMIN
#define CMIN 0x02    // byte range of the validity predicate
#endif
#ifndef CMAX
#define CMAX 0xFE
#endif

// S: NSTR strings, the i-th of symbolic length 1..LMAX (or of the fixed length LENV[i] when the
// obligation enumerates the shape), bytes CMIN..CMAX, strictly increasing in unsigned-byte
// order.  Returns the NUL-separated packing that IteratorDictStringPlain consumes.
static uchar *mk_input(uchar s[NSTR][LMAX + 2], uint lens[NSTR], size_t *total) {
#ifdef LENV
  static const uint fixedlens[NSTR] = LENV;
#endif
  size_t tot = 0;
  for (int i = 0; i < NSTR; i++) {
#ifdef LENV
    uint len = fixedlens[i];
#else
    uint len = nondet_uchar();
    verif_assume(len >= 1 && len <= LMAX);
#endif
    for (int j = 0; j < LMAX + 2; j++) s[i][j] = 0;
    for (int j = 0; j < LMAX; j++) {
      if ((uint)j < len) {
        uchar c = nondet_uchar();
        verif_assume(c >= CMIN && c <= CMAX);
        s[i][j] = c;
      }
    }
    lens[i] = len;
    tot += len + 1;
  }
  for (int i = 0; i + 1 < NSTR; i++) verif_assume(strcmp((char *)s[i], (char *)s[i + 1]) < 0);
  uchar *buf = new uchar[tot];
  size_t p = 0;
  for (int i = 0; i < NSTR; i++) {
    for (uint j = 0; j <= lens[i]; j++) buf[p + j] = s[i][j];
    p += lens[i] + 1;
  }
  *total = tot;
  return buf;
}

// symbolic NUL-terminated query of length 1..QL over CMIN..CMAX; buffer has one guard byte
static uint mk_query(uchar *q, uint QL) {
  uint len = nondet_uchar();
  verif_assume(len >= 1 && len <= QL);
  for (uint j = 0; j < QL + 2; j++) q[j] = 0;
  for (uint j = 0; j < QL; j++)
    if (j < len) { uchar c = nondet_uchar(); verif_assume(c >= CMIN && c <= CMAX); q[j] = c; }
  return len;
}

static inline bool is_prefix(const uchar *p, uint plen, const uchar *s) {
  for (uint j = 0; j < plen; j++) if (s[j] != p[j]) return false;
  return true;
}
#endif
