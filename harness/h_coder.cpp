// C18 (coder half) and C08 (DecodingTree::save): leaf kernels of the statistical coders.
#include "verif.h"
#include <libcdsBasics.h>
#include <BitString.h>
#include "utils/Utils.h"
#include "utils/Coder/Codeword.h"
#include "utils/Coder/StatCoder.h"
#include "utils/Coder/DecodingTree.h"
#include <vector>
#ifndef VS_BOUND
#define VS_BOUND 96
#endif
#ifndef NSYM
#define NSYM 3          // symbols in the encoded string
#endif
#ifndef MAXBITS
#define MAXBITS 20      // longest codeword (longer than the decoding table's 16-bit chunk)
#endif
// reference bit reader: bit k (0 = most significant bit of byte 0) of the buffer
static uint ref_bit(const uchar *buf, uint k) { return (buf[k / 8] >> (7 - (k % 8))) & 1; }

// StatCoder::encodeSymbol / encodeString: the emitted bit string is the concatenation of the codewords
// (most significant bit first) starting at any bit offset; byte count and final offset are exact
extern "C" void h_statcoder_encode() {
  static Codeword cw[256];
  uchar str[NSYM];
  uint code[NSYM], bits[NSYM];
  for (int i = 0; i < NSYM; i++) {
    uchar sym = nondet_uchar();
    uint b = nondet_uchar(); verif_assume(b >= 1 && b <= MAXBITS);
    uint c = nondet_uint(); verif_assume(c < (1u << b));
    for (int j = 0; j < i; j++) if (str[j] == sym) { verif_assume(b == bits[j] && c == code[j]); }   // one codeword per symbol
    str[i] = sym; code[i] = c; bits[i] = b;
    cw[sym] = Codeword(c, b);
  }
  StatCoder coder(cw);
  // (a) encodeSymbol from a symbolic start offset into a buffer whose first byte already holds offset bits
  uchar buf[4 * NSYM + 2];
  for (uint i = 0; i < sizeof buf; i++) buf[i] = 0;
  uint off0 = nondet_uchar(); verif_assume(off0 < 8);
  uchar first = nondet_uchar(); verif_assume((first & (0xFF >> off0)) == 0);     // only the high off0 bits are occupied
  buf[0] = first;
  uint offset = off0, bytes = 0;
  for (int i = 0; i < NSYM; i++) bytes += coder.encodeSymbol(str[i], buf + bytes, &offset);
  uint total = off0;
  for (int i = 0; i < NSYM; i++) total += bits[i];
  verif_assert(bytes == total / 8 && offset == total % 8, 1);
  uint k = off0;
  for (int i = 0; i < NSYM; i++)
    for (uint j = 0; j < MAXBITS; j++)
      if (j < bits[i]) { verif_assert(ref_bit(buf, k) == ((code[i] >> (bits[i] - 1 - j)) & 1), 2); k++; }
  for (uint j = 0; j < 8; j++) if (j < off0) verif_assert(ref_bit(buf, j) == ((first >> (7 - j)) & 1), 3);   // earlier bits untouched
  for (uint j = 0; j < 8; j++) if (total % 8 != 0 && j >= total % 8) verif_assert(ref_bit(buf, (total / 8) * 8 + j) == 0, 4);   // padding is zero
  // (b) encodeString: same bits from offset 0, length rounds up
  uint encLen = 0, o2 = 0;
  uchar *enc = coder.encodeString(str, NSYM, &encLen, &o2);
  uint t2 = total - off0;
  verif_assert(encLen == (t2 + 7) / 8 && o2 == t2 % 8, 5);
  k = 0;
  for (int i = 0; i < NSYM; i++)
    for (uint j = 0; j < MAXBITS; j++)
      if (j < bits[i]) { verif_assert(ref_bit(enc, k) == ((code[i] >> (bits[i] - 1 - j)) & 1), 6); k++; }
  delete[] enc;
  verif_witness();
}

// DecodingTree over a fixed balanced-parenthesis shape (TREEBITS, NLEAVES) with symbolic leaf symbols:
// save is repeatable, the image reloads, and the reloaded tree saves the same image
#ifndef TREEBITS
#define TREEBITS {0, 0, 1, 0, 0, 1, 0, 1, 1, 1}
#define NTREEBITS 10
#define NLEAVES 3
#endif
extern "C" void h_dectree_save() {
  static const uchar shape[NTREEBITS] = TREEBITS;
  BitString *par = new BitString((size_t)NTREEBITS);
  for (uint i = 0; i < NTREEBITS; i++) par->setBit(i, shape[i] != 0);
  std::vector<uint> syms;
  uint s[NLEAVES];
  for (int i = 0; i < NLEAVES; i++) { s[i] = nondet_uchar(); syms.push_back(s[i]); }
  uint prefix = nondet_ushort();
  DecodingTree *t = new DecodingTree(prefix, par, &syms);
  verif_assert(t->getLastSymbol() == s[NLEAVES - 1] + 1, 1);
  t->save(*verif_ostream(0));
  t->save(*verif_ostream(1));                                   // C08: a second save of the same object
  verif_assert(verif_stream_equal(0, 1, VS_BOUND), 2);
#ifdef DT_LOAD
  DecodingTree *r = DecodingTree::load(*verif_istream(0));
  verif_assert(r != 0 && verif_stream_consumed(0) == verif_stream_written(0) && !verif_stream_failed(0), 3);
  verif_assert(r->getLastSymbol() == s[NLEAVES - 1] + 1, 4);
  r->save(*verif_ostream(2));                                   // C08: re-saving a loaded object reproduces the image
  verif_assert(verif_stream_equal(0, 2, VS_BOUND), 5);
  delete r;
#endif
  delete t;
  verif_witness();
}
