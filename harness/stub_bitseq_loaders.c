/* Loaders of the bitmap kinds that are outside the encoded slice: reaching one is reported
 * (the obligations only ever write BitSequenceRG images). */
#include <stdint.h>
#include "ir2c_rt.h"
uint8_t *_ZN10cds_static14BitSequenceRRR4loadERSi(uint8_t *in) { __CPROVER_assert(0, "VERIF model: loader of an unencoded bitmap kind (RRR) reached"); __CPROVER_assume(0); return 0; }
uint8_t *_ZN10cds_static18BitSequenceSDArray4loadERSi(uint8_t *in) { __CPROVER_assert(0, "VERIF model: loader of an unencoded bitmap kind (SDArray) reached"); __CPROVER_assume(0); return 0; }
uint8_t *_ZN10cds_static17BitSequenceDArray4loadERSi(uint8_t *in) { __CPROVER_assert(0, "VERIF model: loader of an unencoded bitmap kind (DArray) reached"); __CPROVER_assume(0); return 0; }
