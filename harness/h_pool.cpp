// C10/C11: the real WorkerPool / Worker / WorkerQueue (parallel/Worker.hpp) under every schedule within the bounds.
#include <functional>
#include <deque>
#include "verif.h"
#ifndef W
#define W 2
#endif
#ifndef T
#define T 2
#endif
#ifndef QCAP
#define QCAP (T > 0 ? T : 1)
#endif
// environment model: the task queue's container is a bounded FIFO (std::deque's node map is not what the
// property is about and dominates the formula); std::function itself is the real libstdc++ code
namespace std {
template <> class deque<function<void()>, allocator<function<void()>>> {
  function<void()> slots[QCAP];
  unsigned long head = 0, tail = 0;
public:
  void push_back(const function<void()> &f) { verif_assert(tail < QCAP, 900); verif_assume(tail < QCAP); slots[tail] = f; tail++; }
  bool empty() const { return head == tail; }
  function<void()> &front() { return slots[head]; }
  void pop_front() { slots[head] = nullptr; head++; }
};
}
#ifdef RACE
// C11 only: the harness registers the pool's and the workers' storage as shared regions and needs to name them;
// Worker.hpp's own classes are read as structs (the std headers it includes are already in and are not affected)
#include <condition_variable>
#include <memory>
#include <mutex>
#include <thread>
#include <vector>
#define class struct
#define private public
#endif
#include "parallel/Worker.hpp"
#ifdef RACE
#undef class
#undef private
#endif
int counters[T+1];
static WorkerPool *poolp;
static int running[T + 1];
extern "C" void h_pool_setup() {
  poolp = new WorkerPool(W);
#ifdef RACE
  verif_shared(poolp, sizeof(WorkerPool));
  for (int i = 0; i < W; i++) verif_shared(poolp->workers[i].get(), sizeof(Worker));
  verif_shared(counters, sizeof counters);
  verif_shared(running, sizeof running);
#endif
}
extern "C" void h_pool() {
  WorkerPool &pool = *poolp;
#ifdef LAST_TASK_STOPS
  // the shape of StringDictionaryHASHRPDACBlocks' use: the producer queues work, the last task shuts the pool down
  for (int i = 0; i < T; i++)
    pool.add_task([i, &pool]() { verif_assert(running[i] == 0, 2); running[i] = 1; counters[i]++; running[i] = 0; if (i == T - 1) pool.stop_all_workers(); });
  if (T == 0) pool.stop_all_workers();
#else
#ifdef VERIF_TSAN
  // native race confirmation (ThreadSanitizer): keep the workers busy while the producer stops the pool
  for (int i = 0; i < T; i++) pool.add_task([i]() { running[i] = 1; for (volatile int k = 0; k < 300000; k++) {} counters[i]++; running[i] = 0; });
  for (volatile int k = 0; k < 100000; k++) {}
#else
  for (int i = 0; i < T; i++) pool.add_task([i]() { verif_assert(running[i] == 0, 2); running[i] = 1; counters[i]++; running[i] = 0; });
#endif
  pool.stop_all_workers();
#endif
  pool.wait_workers();
  // every task queued before the stop ran exactly once
  for (int i = 0; i < T; i++) verif_assert(counters[i] == 1, 1);
  verif_witness();
}
