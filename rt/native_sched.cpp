// Native replay of an E2 counterexample: the REAL code (g++, real std::thread / std::mutex /
// std::condition_variable objects of libstdc++) runs under a schedule-forcing layer that interposes the
// pthread entry points.  Exactly one thread runs at a time; at each yield point of the model (before a lock,
// before and inside a condition wait, before a join) the layer follows the solver's schedule: "run on" or
// "switch to thread t".  When the schedule is used up the threads run on deterministically; if a state is
// reached in which threads remain but none can proceed, the deadlock is confirmed on the real code.
#include <pthread.h>
#include <semaphore.h>
#include <dlfcn.h>
#include <cstdio>
#include <cstdlib>
#include <cstring>
#include <vector>
#include <unistd.h>
#include "verif.h"

#define MAXT 8
#define MAXM 32
enum { K_RUN = 0, K_LOCK, K_CVWAKE, K_JOIN };
struct Th { pthread_t real; sem_t sem; int active, done, kind; void *obj, *obj2, *waitcv; int join_id; };
static Th th[MAXT];
static int nth = 1;
static __thread int me = 0;
static bool on = false;                       // interposition active
static void *mtx_addr[MAXM]; static int mtx_owner[MAXM]; static int nmtx = 0;
static std::vector<int> sched; static size_t spos = 0;
static std::vector<unsigned long long> ndvals; static size_t ndpos = 0;

static int (*real_lock)(pthread_mutex_t *) = 0;
static int (*real_unlock)(pthread_mutex_t *) = 0;
static int (*real_create)(pthread_t *, const pthread_attr_t *, void *(*)(void *), void *) = 0;
static int (*real_join)(pthread_t, void **) = 0;
static void resolve() {
  if (real_lock) return;
  real_lock = (int (*)(pthread_mutex_t *))dlsym(RTLD_NEXT, "pthread_mutex_lock");
  real_unlock = (int (*)(pthread_mutex_t *))dlsym(RTLD_NEXT, "pthread_mutex_unlock");
  real_create = (int (*)(pthread_t *, const pthread_attr_t *, void *(*)(void *), void *))dlsym(RTLD_NEXT, "pthread_create");
  real_join = (int (*)(pthread_t, void **))dlsym(RTLD_NEXT, "pthread_join");
}
static int *owner_of(void *m) {
  for (int i = 0; i < nmtx; i++) if (mtx_addr[i] == m) return &mtx_owner[i];
  if (nmtx >= MAXM) { printf("NATIVE-REPLAY: too many mutexes\n"); exit(9); }
  mtx_addr[nmtx] = m; mtx_owner[nmtx] = 0; return &mtx_owner[nmtx++];
}
static bool enabled(int t) {
  if (!th[t].active || th[t].done) return false;
  switch (th[t].kind) {
    case K_LOCK: return *owner_of(th[t].obj) == 0;
    case K_CVWAKE: return th[t].waitcv == 0 && *owner_of(th[t].obj2) == 0;
    case K_JOIN: return th[th[t].join_id].done;
    default: return true;
  }
}
static void deadlock_or_pick(int *out) {
  for (int t = 0; t < nth; t++) if (enabled(t)) { *out = t; return; }
  bool alive = false; for (int t = 0; t < nth; t++) if (th[t].active && !th[t].done) alive = true;
  if (!alive) { *out = -1; return; }
  printf("NATIVE-DEADLOCK: all remaining threads are blocked:");
  for (int t = 0; t < nth; t++) if (th[t].active && !th[t].done)
    printf(" [thread %d %s]", t, th[t].kind == K_JOIN ? "in join" : th[t].kind == K_CVWAKE ? (th[t].waitcv ? "in condition_variable::wait, never notified" : "re-acquiring after wait") : th[t].kind == K_LOCK ? "waiting for a mutex" : "runnable?");
  printf("\n"); fflush(stdout); _exit(1);
}
static bool dbg = false;
static int next_pick() {                      // scheduler choice from the solver's schedule, else deterministic
  while (spos < sched.size() && sched[spos] >= 100) spos++;
  if (spos < sched.size()) { int t = sched[spos++]; if (dbg) printf("  [pick %d by schedule, enabled=%d]\n", t, t < nth ? (int)enabled(t) : -1); if (t < nth && enabled(t)) return t; }
  int t; deadlock_or_pick(&t); return t;
}
static int next_decision() {                  // 200 run on / 201 pre-empted; default run on
  if (spos < sched.size() && sched[spos] >= 200) { if (dbg) printf("  [thread %d kind %d decision %d]\n", me, th[me].kind, sched[spos]); return sched[spos++]; }
  if (dbg) printf("  [thread %d kind %d decision default]\n", me, th[me].kind);
  return 200;
}
static void switch_from_me(bool final_) {
  int t = next_pick();
  if (t < 0) return;
  if (t == me && !final_) return;
  sem_post(&th[t].sem);
  if (!final_) sem_wait(&th[me].sem);
}
static void yield_point() {                   // mirrors verif_switch_here(): forced when blocked, else the schedule decides
  if (!enabled(me)) { while (!enabled(me)) switch_from_me(false); return; }
  if (next_decision() == 201) { switch_from_me(false); while (!enabled(me)) switch_from_me(false); }
}

extern "C" int pthread_mutex_lock(pthread_mutex_t *m) {
  resolve();
  if (!on) return real_lock(m);
  if (*owner_of(m) == me + 1) { printf("NATIVE-MISUSE: thread %d re-locks a mutex it holds\n", me); fflush(stdout); _exit(1); }
  th[me].kind = K_LOCK; th[me].obj = m;
  yield_point();
  *owner_of(m) = me + 1; th[me].kind = K_RUN;
  return real_lock(m);
}
extern "C" int pthread_mutex_unlock(pthread_mutex_t *m) {
  resolve();
  if (!on) return real_unlock(m);
  *owner_of(m) = 0;
  return real_unlock(m);
}
extern "C" int pthread_cond_wait(pthread_cond_t *cv, pthread_mutex_t *m) {
  resolve();
  if (!on) { printf("NATIVE-REPLAY: cond_wait outside replay\n"); exit(9); }
  th[me].kind = K_RUN;
  yield_point();                              // the window between the predicate and blocking
  *owner_of(m) = 0; real_unlock(m);
  th[me].waitcv = cv; th[me].kind = K_CVWAKE; th[me].obj = cv; th[me].obj2 = m;
  while (!enabled(me)) switch_from_me(false);
  *owner_of(m) = me + 1; th[me].kind = K_RUN;
  return real_lock(m);
}
extern "C" int pthread_cond_broadcast(pthread_cond_t *cv) {
  if (!on) return 0;
  for (int t = 0; t < nth; t++) if (th[t].waitcv == cv) th[t].waitcv = 0;
  return 0;
}
extern "C" int pthread_cond_signal(pthread_cond_t *cv) {
  if (!on) return 0;
  for (int t = 0; t < nth; t++) if (th[t].waitcv == cv) { th[t].waitcv = 0; break; }
  return 0;
}
struct Start { void *(*fn)(void *); void *arg; int id; };
static void *trampoline(void *p) {
  Start s = *(Start *)p; delete (Start *)p;
  me = s.id;
  sem_wait(&th[me].sem);                      // runs only when the schedule says so
  void *r = s.fn(s.arg);
  th[me].done = 1;
  switch_from_me(true);
  return r;
}
extern "C" int pthread_create(pthread_t *t, const pthread_attr_t *a, void *(*fn)(void *), void *arg) {
  resolve();
  if (!on) return real_create(t, a, fn, arg);
  if (nth >= MAXT) { printf("NATIVE-REPLAY: too many threads\n"); exit(9); }
  int id = nth++;
  sem_init(&th[id].sem, 0, 0); th[id].active = 1; th[id].kind = K_RUN;
  int rc = real_create(t, a, trampoline, new Start{fn, arg, id});
  th[id].real = *t;
  return rc;
}
extern "C" int pthread_join(pthread_t t, void **ret) {
  resolve();
  if (!on) return real_join(t, ret);
  int id = -1; for (int i = 1; i < nth; i++) if (pthread_equal(th[i].real, t)) id = i;
  if (id < 0) { printf("NATIVE-MISUSE: join of an unknown thread\n"); fflush(stdout); _exit(1); }
  th[me].kind = K_JOIN; th[me].join_id = id;
  yield_point();
  th[me].kind = K_RUN;
  return real_join(t, ret);
}

extern "C" {
static unsigned long long nd(int bits) { unsigned long long v = ndpos < ndvals.size() ? ndvals[ndpos] : 0; ndpos++; return bits < 64 ? v & ((1ull << bits) - 1) : v; }
unsigned char nondet_uchar() { return (unsigned char)nd(8); }
unsigned short nondet_ushort() { return (unsigned short)nd(16); }
unsigned nondet_uint() { return (unsigned)nd(32); }
unsigned long nondet_ulong() { return (unsigned long)nd(64); }
void verif_assume(int c) { if (!c) { printf("REPLAY-ASSUME-VIOLATED\n"); fflush(stdout); _exit(4); } }
void verif_assert(int c, int id) { if (!c) { printf("REPLAY-ASSERT-FAILED id=%d (thread %d)\n", id, me); fflush(stdout); _exit(1); } }
void verif_observe(unsigned long) {}
void verif_witness() {}
void verif_exclude(int, int) {}
void verif_shared(void *, unsigned long) {}
void VERIF_ENTRY(void);
#ifdef VERIF_SETUP
void VERIF_SETUP(void);
#endif
}

int main(int argc, char **argv) {
  setvbuf(stdout, 0, _IOLBF, 0);
  dbg = getenv("VERIF_SCHED_DEBUG") != 0;
  resolve();
  if (argc < 2) { printf("usage: native_sched <replay file>\n"); return 5; }
  FILE *f = fopen(argv[1], "r");
  if (!f) { perror("replay file"); return 5; }
  char line[256];
  while (fgets(line, sizeof line, f)) {
    if (line[0] == '#' || line[0] == '\n') continue;
    if (line[0] == 'n') ndvals.push_back(strtoull(line + 1, 0, 0)); else sched.push_back(atoi(line));
  }
  fclose(f);
  sem_init(&th[0].sem, 0, 0); th[0].active = 1; th[0].kind = K_RUN;
  alarm(30);
  on = true;
#ifdef VERIF_SETUP
  VERIF_SETUP();                              // runs before scheduling starts, as in the model (may create threads)
#endif
  switch_from_me(false);                      // the scheduler's first pick
  VERIF_ENTRY();
  th[0].done = 1;
  on = false;
  printf("REPLAY-COMPLETED-NO-FAILURE schedule entries used %zu of %zu\n", spos, sched.size());
  fflush(stdout);
  _exit(0);
}
