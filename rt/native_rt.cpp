// Native side of the harness vocabulary: linked with the g++ build of a harness and the
// real libCSD sources.  Two uses:
//   replay <file>   nondet_* return the values of a solver counterexample (one per line)
//   selftest <seed> nondet_* come from the same PRNG as rt/stubs.c's native mode and the
//                   observation log is printed for comparison with the translated C
#include <cstdio>
#include <cstdlib>
#include <cstring>
#include <sstream>
#include <vector>
#include <new>
#include <unistd.h>
#include "verif.h"

#ifndef VERIF_KF_ACTIVE
#define VERIF_KF_ACTIVE 0u
#endif
#ifndef VERIF_KF_CONFIRM
#define VERIF_KF_CONFIRM 0u
#endif

static bool g_replay = false;
static std::vector<unsigned long long> g_vals;
static size_t g_pos = 0;
static int g_failed = 0;

// fresh heap memory is filled with a fixed pattern in both native builds, so that the
// self-test comparison does not depend on allocator history
// (a different byte per allocation, so that two objects built from the same input do not share their garbage:
//  "image contains uninitialised memory" then reproduces natively as two different images)
static unsigned g_allocs = 0;
void *operator new(size_t n) { void *p = malloc(n ? n : 1); if (!p) abort(); memset(p, 0xA0 + (g_allocs++ % 64), n); return p; }
void *operator new[](size_t n) { void *p = malloc(n ? n : 1); if (!p) abort(); memset(p, 0xA0 + (g_allocs++ % 64), n); return p; }
void operator delete(void *p) noexcept { free(p); }
void operator delete[](void *p) noexcept { free(p); }
void operator delete(void *p, size_t) noexcept { free(p); }
void operator delete[](void *p, size_t) noexcept { free(p); }

static unsigned long long prng_state = 88172645463325252ull;
static unsigned long long prng_next(int bits) {
  unsigned long long x = prng_state; x ^= x << 13; x ^= x >> 7; x ^= x << 17; prng_state = x;
  unsigned long long v = x >> 8; unsigned sel = x & 7;
  if (sel < 3) v &= 7; else if (sel < 5) v &= 0xff;
  if (bits < 64) v &= ((1ull << bits) - 1);
  return v;
}
static unsigned long long next_val(int bits) {
  if (!g_replay) return prng_next(bits);
  unsigned long long v = g_pos < g_vals.size() ? g_vals[g_pos] : 0;
  g_pos++;
  if (bits < 64) v &= ((1ull << bits) - 1);
  return v;
}

static std::stringstream *g_ss[4];
static std::stringstream &ss(unsigned k) { if (k >= 4) abort(); if (!g_ss[k]) g_ss[k] = new std::stringstream(std::ios::in | std::ios::out | std::ios::binary); return *g_ss[k]; }

extern "C" {
unsigned char nondet_uchar() { return (unsigned char)next_val(8); }
unsigned short nondet_ushort() { return (unsigned short)next_val(16); }
unsigned nondet_uint() { return (unsigned)next_val(32); }
unsigned long nondet_ulong() { return (unsigned long)next_val(64); }
void verif_assume(int c) {
  if (c) return;
  if (g_replay) { printf("REPLAY-ASSUME-VIOLATED\n"); fflush(stdout); _exit(4); }
  printf("ASSUME-STOP\n"); fflush(stdout); _exit(0);
}
void verif_assert(int c, int id) {
  if (g_replay) { if (!c) { printf("REPLAY-ASSERT-FAILED id=%d\n", id); fflush(stdout); g_failed = 1; _exit(1); } return; }
  printf("A %d %d\n", id, c ? 1 : 0);
}
void verif_observe(unsigned long v) { if (!g_replay) printf("O %llu\n", (unsigned long long)v); }
void verif_witness() { if (!g_replay) printf("END\n"); }
void verif_exclude(int pred, int tag) {
  if (!((VERIF_KF_ACTIVE >> tag) & 1u)) return;
  if ((VERIF_KF_CONFIRM >> tag) & 1u) verif_assume(pred != 0); else verif_assume(pred == 0);
}
void verif_shared(void *, unsigned long) {}
std::ostream *verif_ostream(unsigned k) { return &ss(k); }
std::istream *verif_istream(unsigned k) { ss(k).clear(); ss(k).seekg(0); return &ss(k); }
unsigned long verif_stream_written(unsigned k) { return ss(k).str().size(); }
unsigned long verif_stream_consumed(unsigned k) { ss(k).clear(); long p = (long)ss(k).tellg(); return p < 0 ? 0 : p; }
unsigned char verif_stream_byte(unsigned k, unsigned long i) { std::string s = ss(k).str(); return i < s.size() ? (unsigned char)s[i] : 0; }
void verif_stream_put(unsigned k, unsigned char b) { ss(k).put((char)b); }
int verif_stream_failed(unsigned k) { return ss(k).fail() ? 1 : 0; }
void verif_stream_reset(unsigned k) { ss(k).str(std::string()); ss(k).clear(); }
void VERIF_ENTRY(void);
}

int main(int argc, char **argv) {
  setvbuf(stdout, 0, _IOLBF, 0);
  if (argc >= 3 && !strcmp(argv[1], "replay")) {
    g_replay = true;
    FILE *f = fopen(argv[2], "r");
    if (!f) { perror("replay file"); return 5; }
    char line[256];
    while (fgets(line, sizeof line, f)) { if (line[0] == '#' || line[0] == '\n') continue; g_vals.push_back(strtoull(line, 0, 0)); }
    fclose(f);
    alarm(20);
    VERIF_ENTRY();
    printf("REPLAY-COMPLETED-NO-FAILURE consumed=%zu of %zu\n", g_pos, g_vals.size());
    return 0;
  }
  unsigned long long seed = argc >= 3 ? strtoull(argv[2], 0, 10) : 1;
  prng_state = seed * 2654435761u + 88172645463325252ull; if (!prng_state) prng_state = 1;
  alarm(20);
  VERIF_ENTRY();
  return 0;
}
