// Native confirmation of a C11 (data race) counterexample: the real harness and real threads under ThreadSanitizer.
// (The schedule-forcing layer serialises the threads through semaphores, which would hide every race from a
// happens-before detector, so race reports are confirmed on free-running threads instead: the binary is run
// repeatedly and any ThreadSanitizer data-race report on libCSD / harness frames confirms.)
#include <cstdio>
#include <cstdlib>
#include <unistd.h>
#include "verif.h"
extern "C" {
unsigned char nondet_uchar() { return 0; }
unsigned short nondet_ushort() { return 0; }
unsigned nondet_uint() { return 0; }
unsigned long nondet_ulong() { return 0; }
void verif_assume(int c) { if (!c) _exit(4); }
void verif_assert(int c, int id) { if (!c) { printf("REPLAY-ASSERT-FAILED id=%d\n", id); fflush(stdout); } }
void verif_observe(unsigned long) {}
void verif_witness() {}
void verif_exclude(int, int) {}
void verif_shared(void *, unsigned long) {}
void VERIF_ENTRY(void);
#ifdef VERIF_SETUP
void VERIF_SETUP(void);
#endif
}
int main() {
  alarm(20);
#ifdef VERIF_SETUP
  VERIF_SETUP();
#endif
  VERIF_ENTRY();
  return 0;
}
