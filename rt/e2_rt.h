/* Engine E2: model of the threading primitives and the symbolic scheduler.
 * Included by the generated C of an E2 obligation (after ir2c_rt.h).  Threads are interleaved only at the
 * yield points inside the blocking primitives below (before a lock is taken, before and after a
 * condition-variable wait, before a join): sound for data-race-free code (DESIGN.md section 2).
 * Every scheduling decision is a solver variable (verif_sched_log). */
#ifndef E2_RT_H
#define E2_RT_H
#ifndef VERIF_MAXT
#define VERIF_MAXT 3          /* main + workers */
#endif
#ifndef VERIF_K
#define VERIF_K 8             /* activations = context switches + 1 */
#endif
#ifndef VERIF_SPURIOUS
#define VERIF_SPURIOUS 0      /* spurious wake-ups allowed */
#endif
enum { VK_RUN = 0, VK_LOCK, VK_CVWAKE, VK_JOIN };
struct verif_thread { uint8_t active, done, kind; uint8_t *obj, *obj2; uint8_t *waitcv; uint32_t join_id; };
static struct verif_thread verif_thr[VERIF_MAXT];
static uint32_t verif_nthr = 1, verif_cur = 0, verif_spurious_left = VERIF_SPURIOUS;
uint32_t verif_sched_log;     /* scheduler choices, read back from the counterexample trace */
uint32_t verif_e2_steps;

/* A yield point either hands control back to the scheduler (a context switch: forced when the thread cannot
 * proceed, otherwise the solver's choice) or lets the thread run on in the same activation.  The scheduler loop
 * bounds the number of activations (VERIF_K = context-switch bound + 1). */
static int verif_enabled(uint32_t t);
#ifdef __CPROVER__
uint32_t __VERIFIER_nondet_u32(void);
static uint32_t verif_pick(void) { return __VERIFIER_nondet_u32(); }
#else
uint64_t verif_prng_next(int bits);
static uint32_t verif_pick(void) { return (uint32_t)verif_prng_next(8); }
#endif
static int verif_switch_here(void) {
  if (!verif_enabled(verif_cur)) return 1;                 /* blocked: forced switch */
  uint32_t c = verif_pick() & 1;
  verif_sched_log = 200 + c;                               /* 200 = run on, 201 = pre-empted here */
  return (int)c;
}
static void verif_thread_init(uint32_t t, uint8_t *state);     /* generated: sets up the entry frame of thread t */
static int verif_step_thread(uint32_t t);                       /* generated: runs thread t to its next yield */

/* ---- mutex: owner+1 is kept in a side table keyed by the mutex address (writing into the pthread_mutex_t itself
 * would be a byte-level update of whatever object embeds it) */
#ifndef VERIF_MAXM
#define VERIF_MAXM 8
#endif
static uint8_t *verif_mtx_addr[VERIF_MAXM];
static int32_t verif_mtx_owner[VERIF_MAXM];
static uint32_t verif_nmtx;
static inline int32_t *verif_mword(uint8_t *m) {
  for (uint32_t i = 0; i < VERIF_MAXM; i++) if (i < verif_nmtx && verif_mtx_addr[i] == m) return &verif_mtx_owner[i];
  __CPROVER_assert(verif_nmtx < VERIF_MAXM, "VERIF model: more mutexes than modelled"); __CPROVER_assume(verif_nmtx < VERIF_MAXM);
  verif_mtx_addr[verif_nmtx] = m; verif_mtx_owner[verif_nmtx] = 0;
  return &verif_mtx_owner[verif_nmtx++];
}
struct FR_pthread_mutex_lock { uint32_t pc; uint32_t ret; uint8_t *a0; };
static int pthread_mutex_lock_step(struct FR_pthread_mutex_lock *fr) {
  if (fr->pc == 0) {
    __CPROVER_assert(*verif_mword(fr->a0) != (int32_t)(verif_cur + 1), "VERIF concurrency: thread re-locks a mutex it already holds");
    verif_thr[verif_cur].kind = VK_LOCK; verif_thr[verif_cur].obj = fr->a0;
    if (verif_switch_here()) { fr->pc = 1; return 0; }
  }
  __CPROVER_assume(*verif_mword(fr->a0) == 0);          /* the scheduler only resumes an enabled thread */
  *verif_mword(fr->a0) = (int32_t)(verif_cur + 1);
  verif_thr[verif_cur].kind = VK_RUN; fr->ret = 0; return 1;
}
uint32_t pthread_mutex_unlock(uint8_t *m) {
  __CPROVER_assert(*verif_mword(m) == (int32_t)(verif_cur + 1), "VERIF concurrency: unlock of a mutex the thread does not hold");
  *verif_mword(m) = 0; return 0;
}
/* ---- condition variable: wait(unique_lock&) = { release, enter wait-set } ... { notified, re-acquire } */
struct FR__ZNSt18condition_variable4waitERSt11unique_lockISt5mutexE { uint32_t pc; uint8_t *a0; uint8_t *a1; };
static int _ZNSt18condition_variable4waitERSt11unique_lockISt5mutexE_step(struct FR__ZNSt18condition_variable4waitERSt11unique_lockISt5mutexE *fr) {
  uint8_t *m = *(uint8_t **)fr->a1;                      /* unique_lock::_M_device */
  if (fr->pc == 0) { verif_thr[verif_cur].kind = VK_RUN; if (verif_switch_here()) { fr->pc = 1; return 0; } }   /* possible pre-emption before blocking: the lost wake-up window */
  if (fr->pc <= 1) {
    __CPROVER_assert(*verif_mword(m) == (int32_t)(verif_cur + 1), "VERIF concurrency: condition_variable::wait without holding the lock");
    *verif_mword(m) = 0;
    verif_thr[verif_cur].waitcv = fr->a0;
    verif_thr[verif_cur].kind = VK_CVWAKE; verif_thr[verif_cur].obj = fr->a0; verif_thr[verif_cur].obj2 = m;
    fr->pc = 2; return 0;
  }
  __CPROVER_assume(verif_thr[verif_cur].waitcv == 0 && *verif_mword(m) == 0);
  *verif_mword(m) = (int32_t)(verif_cur + 1);
  verif_thr[verif_cur].kind = VK_RUN; return 1;
}
void _ZNSt18condition_variable10notify_allEv(uint8_t *cv) {
  for (uint32_t t = 0; t < VERIF_MAXT; t++) if (verif_thr[t].waitcv == cv) verif_thr[t].waitcv = 0;
}
void _ZNSt18condition_variable10notify_oneEv(uint8_t *cv) {
  for (uint32_t t = 0; t < VERIF_MAXT; t++) if (verif_thr[t].waitcv == cv) { verif_thr[t].waitcv = 0; break; }
}
void _ZNSt18condition_variableC1Ev(uint8_t *cv) { }
void _ZNSt18condition_variableD1Ev(uint8_t *cv) { }
/* ---- threads: std::thread::_M_id (first word of std::thread) holds model id + 1 */
void _ZNSt6thread15_M_start_threadESt10unique_ptrINS_6_StateESt14default_deleteIS1_EEPFvvE(uint8_t *thr, uint8_t *state_uptr, uint8_t *depend) {
  __CPROVER_assert(verif_nthr < VERIF_MAXT, "VERIF model: more threads than modelled"); __CPROVER_assume(verif_nthr < VERIF_MAXT);
  uint32_t id = verif_nthr++;
  verif_thr[id].active = 1; verif_thr[id].kind = VK_RUN;
  verif_thread_init(id, *(uint8_t **)state_uptr);
  *(uint8_t **)state_uptr = 0;
  *(uint64_t *)thr = id + 1;
}
void _ZNSt6thread6_StateD2Ev(uint8_t *s) { }
struct FR__ZNSt6thread4joinEv { uint32_t pc; uint8_t *a0; };
static int _ZNSt6thread4joinEv_step(struct FR__ZNSt6thread4joinEv *fr) {
  uint64_t id1 = *(uint64_t *)fr->a0;
  if (fr->pc == 0) {
    __CPROVER_assert(id1 >= 1 && id1 <= VERIF_MAXT - 1 + 1, "VERIF concurrency: join of a thread that is not joinable");
    __CPROVER_assume(id1 >= 1 && id1 <= VERIF_MAXT);
    verif_thr[verif_cur].kind = VK_JOIN; verif_thr[verif_cur].join_id = (uint32_t)(id1 - 1);
    if (verif_switch_here()) { fr->pc = 1; return 0; }
  }
  __CPROVER_assume(verif_thr[verif_thr[verif_cur].join_id].done);
  *(uint64_t *)fr->a0 = 0;
  verif_thr[verif_cur].kind = VK_RUN; return 1;
}
uint32_t _ZNSt6thread20hardware_concurrencyEv(void) { return 2; }

/* ---- C11: lockset (Eraser) monitor over the shared regions the harness registers with verif_shared().
 * Per 4-byte granule: virgin -> exclusive(first thread) -> shared (read by a second thread) / shared-modified
 * (written after becoming shared); the candidate lockset is intersected with the locks held at every access
 * once the granule is shared; an empty lockset in state shared-modified is a data race. */
#ifndef VERIF_NREG
#define VERIF_NREG 4
#endif
#ifndef VERIF_NGRAN
#define VERIF_NGRAN 64
#endif
static uint8_t *verif_reg_base[VERIF_NREG]; static uint64_t verif_reg_size[VERIF_NREG]; static uint32_t verif_nreg;
static uint8_t verif_sh_state[VERIF_NREG][VERIF_NGRAN], verif_sh_owner[VERIF_NREG][VERIF_NGRAN];
static uint32_t verif_sh_locks[VERIF_NREG][VERIF_NGRAN];
uint32_t verif_race_site;
void verif_shared(uint8_t *p, uint64_t size) {
  __CPROVER_assert(verif_nreg < VERIF_NREG && size <= 4 * VERIF_NGRAN, "VERIF model: shared region table too small"); __CPROVER_assume(verif_nreg < VERIF_NREG && size <= 4 * VERIF_NGRAN);
  verif_reg_base[verif_nreg] = p; verif_reg_size[verif_nreg] = size; verif_nreg++;
}
static uint32_t verif_held(void) {
  uint32_t m = 0;
  for (uint32_t i = 0; i < VERIF_MAXM; i++) if (i < verif_nmtx && verif_mtx_owner[i] == (int32_t)(verif_cur + 1)) m |= 1u << i;
  return m;
}
static void verif_acc_gran(uint32_t r, uint64_t g, uint32_t w) {
  uint8_t st = verif_sh_state[r][g];
  uint32_t held = verif_held();
  if (st == 0) { verif_sh_state[r][g] = 1; verif_sh_owner[r][g] = (uint8_t)verif_cur; return; }
  if (st == 1) {
    if (verif_sh_owner[r][g] == verif_cur) return;
    verif_sh_state[r][g] = w ? 3 : 2; verif_sh_locks[r][g] = held; st = verif_sh_state[r][g];
  } else {
    verif_sh_locks[r][g] &= held;
    if (w) { verif_sh_state[r][g] = 3; st = 3; }
  }
  if (st == 3) { verif_race_site = r * 1000 + (uint32_t)g; __CPROVER_assert(verif_sh_locks[r][g] != 0, "VERIF concurrency: data race - shared location written without a common lock"); }
}
void verif_acc(uint8_t *p, uint64_t sz, uint32_t w) {
  for (uint32_t r = 0; r < VERIF_NREG; r++) {
    if (r >= verif_nreg) break;
#ifdef __CPROVER__
    if (__CPROVER_POINTER_OBJECT(p) != __CPROVER_POINTER_OBJECT(verif_reg_base[r])) continue;
    uint64_t off = (uint64_t)(__CPROVER_POINTER_OFFSET(p) - __CPROVER_POINTER_OFFSET(verif_reg_base[r]));
#else
    if (p < verif_reg_base[r] || p >= verif_reg_base[r] + verif_reg_size[r]) continue;
    uint64_t off = (uint64_t)(p - verif_reg_base[r]);
#endif
    if (off >= verif_reg_size[r]) continue;
    verif_acc_gran(r, off / 4, w);
    if (sz > 4 && off / 4 + 1 < VERIF_NGRAN) verif_acc_gran(r, off / 4 + 1, w);
  }
}

/* ---- scheduler */
static int verif_enabled(uint32_t t) {
  if (!verif_thr[t].active || verif_thr[t].done) return 0;
  switch (verif_thr[t].kind) {
    case VK_LOCK: return *verif_mword(verif_thr[t].obj) == 0;
    case VK_CVWAKE: return verif_thr[t].waitcv == 0 && *verif_mword(verif_thr[t].obj2) == 0;
    case VK_JOIN: return verif_thr[verif_thr[t].join_id].done;
    default: return 1;
  }
}
void verif_witness(void);
void verif_e2_run(void) {
  verif_thr[0].active = 1;
  for (uint32_t step = 0; step < VERIF_K; step++) {
    int alive = 0, en = 0;
    for (uint32_t t = 0; t < VERIF_MAXT; t++) { if (verif_thr[t].active && !verif_thr[t].done) alive = 1; if (verif_enabled(t)) en = 1; }
    if (!alive) break;
#if VERIF_SPURIOUS > 0
    if (verif_spurious_left && (verif_pick() & 1)) {       /* a spurious wake-up of some waiter */
      uint32_t w = verif_pick(); __CPROVER_assume(w < VERIF_MAXT && verif_thr[w].waitcv != 0);
      verif_thr[w].waitcv = 0; verif_spurious_left--; verif_sched_log = 100 + w; continue;
    }
#endif
#ifndef __CPROVER__
    if (!en) { printf("DEADLOCK at step %u\n", step); exit(7); }
#endif
    __CPROVER_assert(en, "VERIF concurrency: deadlock - threads remain but none can run (lost wake-up / wait never returns)");
    __CPROVER_assume(en);
    uint32_t t = verif_pick();
#ifdef __CPROVER__
    __CPROVER_assume(t < VERIF_MAXT && verif_enabled(t));
#else
    t %= VERIF_MAXT; while (!verif_enabled(t)) t = (t + 1) % VERIF_MAXT;
#endif
    verif_sched_log = t;
#ifndef __CPROVER__
    if (getenv("VERIF_E2_DEBUG")) printf("step %u: run thread %u (kinds:", step, t), printf(" %d/%d", verif_thr[0].kind, verif_thr[1].kind), printf(")\n");
#endif
    verif_cur = t;  /* refined to a constant by the case split in verif_step_thread */
    verif_e2_steps = step + 1;
    if (verif_step_thread(t)) verif_thr[t].done = 1;
  }
  int all = 1;
  for (uint32_t t = 0; t < VERIF_MAXT; t++) if (verif_thr[t].active && !verif_thr[t].done) all = 0;
  /* schedules that need more than VERIF_K activations are outside the bound (context-bounded analysis) */
  __CPROVER_assume(all);
}
#endif
