// Harness vocabulary.  A harness is ordinary C++ against libCSD's public API; it is
// compiled by clang (-> LLVM IR -> ir2c.py -> C -> cbmc) and, unchanged, by g++ for
// the native replay of solver counterexamples and for the translator self-test.
#ifndef VERIF_H
#define VERIF_H
#include <cstddef>
#include <cstdint>
#include <cstring>
#include <iostream>

extern "C" {
// symbolic inputs (cbmc: unconstrained; native: next value of the replay file / PRNG)
unsigned char nondet_uchar();
unsigned short nondet_ushort();
unsigned nondet_uint();
unsigned long nondet_ulong();
// validity predicate of the property (cbmc: __CPROVER_assume; native: stop the run)
void verif_assume(int cond);
// the property; id identifies the clause in reports
void verif_assert(int cond, int id);
// value recorded in the observation log of the translator self-test (no-op in cbmc)
void verif_observe(unsigned long v);
// reachability witness: placed once at the end of each harness; must be reachable
void verif_witness();
// known-finding switch: returns 1 in the run that *excludes* the listed finding
// (assume(!pred)), see known_findings.json; harness calls verif_exclude(pred, tag)
void verif_exclude(int pred, int tag);
// stream model (save / load): VS_N independent byte streams
std::ostream *verif_ostream(unsigned k);
std::istream *verif_istream(unsigned k); // rewinds stream k
unsigned long verif_stream_written(unsigned k);
unsigned long verif_stream_consumed(unsigned k);
unsigned char verif_stream_byte(unsigned k, unsigned long i);
void verif_stream_put(unsigned k, unsigned char b); // append one byte
int verif_stream_failed(unsigned k);
void verif_stream_reset(unsigned k);
// C11 (engine E2): declares [p, p+size) as memory several threads can reach; accesses are checked by the lockset monitor
void verif_shared(void *p, unsigned long size);
}

static inline int verif_stream_equal(unsigned a, unsigned b, unsigned long maxn) {
  unsigned long n = verif_stream_written(a);
  if (n != verif_stream_written(b)) return 0;
  for (unsigned long i = 0; i < maxn; i++)
    if (i < n && verif_stream_byte(a, i) != verif_stream_byte(b, i)) return 0;
  return 1;
}
static inline void verif_stream_put_u32(unsigned k, uint32_t v) { for (int i = 0; i < 4; i++) verif_stream_put(k, (unsigned char)(v >> (8 * i))); }
static inline void verif_stream_put_u64(unsigned k, uint64_t v) { for (int i = 0; i < 8; i++) verif_stream_put(k, (unsigned char)(v >> (8 * i))); }
#endif
