/* Environment model for translated libCSD code.  Compiled (a) by cbmc together with the
 * generated C, (b) by gcc for the translator self-test (then nondet_* come from a PRNG).
 * Every function here is part of the claim (DESIGN.md 0.3).  Pointers are erased to
 * uint8_t* at this boundary by ir2c.py. */
#include <stdint.h>
#include <stdlib.h>
#include <string.h>
#include "ir2c_rt.h"

#ifndef VERIF_KF_ACTIVE
#define VERIF_KF_ACTIVE 0u        /* bit mask of known-finding tags that are listed */
#endif
#ifndef VERIF_KF_CONFIRM
#define VERIF_KF_CONFIRM 0u       /* bit mask: tags whose predicate is assumed TRUE in this run */
#endif

uint64_t verif_nd_log;            /* every symbolic input passes through here: read back from the trace */
uint32_t verif_failed_id;

#ifdef __CPROVER__
uint8_t __VERIFIER_nondet_u8(void);
uint16_t __VERIFIER_nondet_u16(void);
uint32_t __VERIFIER_nondet_u32(void);
uint64_t __VERIFIER_nondet_u64(void);
uint8_t nondet_uchar(void) { uint8_t v = __VERIFIER_nondet_u8(); verif_nd_log = v; return v; }
uint16_t nondet_ushort(void) { uint16_t v = __VERIFIER_nondet_u16(); verif_nd_log = v; return v; }
uint32_t nondet_uint(void) { uint32_t v = __VERIFIER_nondet_u32(); verif_nd_log = v; return v; }
uint64_t nondet_ulong(void) { uint64_t v = __VERIFIER_nondet_u64(); verif_nd_log = v; return v; }
void verif_assert(uint32_t c, uint32_t id) { if (!c) verif_failed_id = id; __CPROVER_assert(c, "VERIF harness assertion"); }
void verif_assume(uint32_t c) { __CPROVER_assume(c); }
void verif_observe(uint64_t v) { }
#ifdef VERIF_NO_WITNESS
void verif_witness(void) { }      /* E2: reachability is shown by concrete runs of the generated model instead */
#else
void verif_witness(void) { __CPROVER_assert(0, "VERIF witness (must be reachable)"); }
#endif
#else
#include <stdio.h>
uint64_t verif_prng_next(int bits);
uint8_t nondet_uchar(void) { return (uint8_t)verif_prng_next(8); }
uint16_t nondet_ushort(void) { return (uint16_t)verif_prng_next(16); }
uint32_t nondet_uint(void) { return (uint32_t)verif_prng_next(32); }
uint64_t nondet_ulong(void) { return verif_prng_next(64); }
void verif_assert(uint32_t c, uint32_t id) { printf("A %u %u\n", id, c ? 1 : 0); }
void verif_assume(uint32_t c) { if (!c) { printf("ASSUME-STOP\n"); exit(0); } }
void verif_observe(uint64_t v) { printf("O %llu\n", (unsigned long long)v); }
void verif_witness(void) { printf("END\n"); }
#endif
void verif_exclude(uint32_t pred, uint32_t tag) {
  if (!((VERIF_KF_ACTIVE >> tag) & 1u)) return;
  if ((VERIF_KF_CONFIRM >> tag) & 1u) verif_assume(pred != 0); else verif_assume(pred == 0);
}

/* ---- allocation: never fails (allocation failure is outside every claim) */
uint8_t *_Znam(uint64_t n) { uint8_t *p = malloc(n); __CPROVER_assume(p != 0); return p; }
uint8_t *_Znwm(uint64_t n) { uint8_t *p = malloc(n); __CPROVER_assume(p != 0); return p; }
void _ZdaPv(uint8_t *p) { free(p); }
void _ZdlPv(uint8_t *p) { free(p); }
void _ZdlPvm(uint8_t *p, uint64_t n) { free(p); }
void _ZdaPvm(uint8_t *p, uint64_t n) { free(p); }

/* ---- abnormal termination = failing assertion */
#define VERIF_DIE(msg) do { __CPROVER_assert(0, "VERIF abnormal termination: " msg); __CPROVER_assume(0); } while (0)
void __assert_fail(uint8_t *a, uint8_t *b, uint32_t c, uint8_t *d) { VERIF_DIE("assert() failed"); }
void _ZSt20__throw_length_errorPKc(uint8_t *m) { VERIF_DIE("throw length_error"); }
void _ZSt17__throw_bad_allocv(void) { VERIF_DIE("throw bad_alloc"); }
void _ZSt28__throw_bad_array_new_lengthv(void) { VERIF_DIE("throw bad_array_new_length"); }
void _ZSt24__throw_out_of_range_fmtPKcz() { VERIF_DIE("throw out_of_range"); }
void _ZSt25__throw_bad_function_callv(void) { VERIF_DIE("throw bad_function_call"); }
void _ZSt20__throw_system_errori(uint32_t e) { VERIF_DIE("throw system_error"); }
void _ZSt19__throw_logic_errorPKc(uint8_t *m) { VERIF_DIE("throw logic_error"); }
static uint8_t verif_exc_buf[64];
uint8_t *__cxa_allocate_exception(uint64_t n) { return verif_exc_buf; }
void __cxa_throw(uint8_t *a, uint8_t *b, uint8_t *c) { VERIF_DIE("C++ exception thrown"); }
void _ZSt9terminatev(void) { VERIF_DIE("std::terminate"); }
uint8_t *__cxa_begin_catch(uint8_t *p) { return p; }
void __cxa_end_catch(void) { }
void __cxa_pure_virtual(void) { VERIF_DIE("pure virtual call"); }
void __cxa_free_exception(uint8_t *p) { }
uint32_t __cxa_atexit(uint8_t *f, uint8_t *a, uint8_t *d) { return 0; }
uint32_t __cxa_guard_acquire(uint8_t *g) { return *g == 0; }
void __cxa_guard_release(uint8_t *g) { *g = 1; }

/* ---- logging: streams are returned untouched */
uint8_t *_ZStlsISt11char_traitsIcEERSt13basic_ostreamIcT_ES5_PKc(uint8_t *os, uint8_t *s) { return os; }
uint8_t *_ZStlsISt11char_traitsIcEERSt13basic_ostreamIcT_ES5_c(uint8_t *os, uint8_t c) { return os; }
uint8_t *_ZNSolsEPFRSoS_E(uint8_t *os, uint8_t *f) { return os; }
uint8_t *_ZNSolsEi(uint8_t *os, uint32_t v) { return os; }
uint8_t *_ZNSolsEj(uint8_t *os, uint32_t v) { return os; }
uint8_t *_ZNSolsEm(uint8_t *os, uint64_t v) { return os; }
uint8_t *_ZNSolsEl(uint8_t *os, uint64_t v) { return os; }
uint8_t *_ZNSo9_M_insertImEERSoT_(uint8_t *os, uint64_t v) { return os; }
uint8_t *_ZNSo9_M_insertIlEERSoT_(uint8_t *os, uint64_t v) { return os; }
uint8_t *_ZNSo9_M_insertIdEERSoT_(uint8_t *os, double v) { return os; }
uint8_t *_ZNSo5flushEv(uint8_t *os) { return os; }
uint8_t *_ZNSo3putEc(uint8_t *os, uint8_t c) { return os; }
uint8_t *_ZSt4endlIcSt11char_traitsIcEERSt13basic_ostreamIT_T0_ES6_(uint8_t *os) { return os; }
uint8_t *_ZSt16__ostream_insertIcSt11char_traitsIcEERSt13basic_ostreamIT_T0_ES6_PKS3_l(uint8_t *os, uint8_t *s, uint64_t n) { return os; }
uint32_t ir2c_printf() { return 0; }
uint32_t ir2c_puts(uint8_t *s) { return 0; }
uint32_t ir2c_putchar(uint32_t c) { return c; }
uint32_t ir2c_fprintf() { return 0; }
uint64_t ir2c_fwrite(uint8_t *p, uint64_t a, uint64_t b, uint8_t *f) { return b; }
uint32_t ir2c_fflush(uint8_t *f) { return 0; }
uint32_t ir2c_fputc(uint32_t c, uint8_t *f) { return c; }
uint32_t ir2c_fputs(uint8_t *s, uint8_t *f) { return 0; }

/* ---- stream model: VS_N byte streams; write appends, read consumes, short read sets fail */
#ifndef VS_N
#define VS_N 3
#endif
#ifndef VS_CAP
#define VS_CAP 96
#endif
static int64_t verif_fake_vtbl[4] = {0, 0, 0, 0};     /* vptr[-3] == 0: virtual-base adjustment is the identity */
struct verif_stream { int64_t *vptr; uint64_t wpos, rpos; uint8_t fail; uint8_t buf[VS_CAP]; };
static struct verif_stream verif_streams[VS_N] = {
  { &verif_fake_vtbl[3] }, { &verif_fake_vtbl[3] }, { &verif_fake_vtbl[3] }
#if VS_N > 3
  , { &verif_fake_vtbl[3] }
#endif
};
static struct verif_stream *verif_stream_of(uint8_t *p) {
  for (unsigned k = 0; k < VS_N; k++) if (p == (uint8_t *)&verif_streams[k]) return &verif_streams[k];
  __CPROVER_assert(0, "VERIF model: stream operation on an unknown stream object"); __CPROVER_assume(0);
  return &verif_streams[0];
}
static struct verif_stream *verif_stream_k(uint32_t k) { __CPROVER_assume(k < VS_N); return &verif_streams[k]; }
uint8_t *verif_ostream(uint32_t k) { return (uint8_t *)verif_stream_k(k); }
uint8_t *verif_istream(uint32_t k) { struct verif_stream *s = verif_stream_k(k); s->rpos = 0; s->fail = 0; return (uint8_t *)s; }
uint64_t verif_stream_written(uint32_t k) { return verif_stream_k(k)->wpos; }
uint64_t verif_stream_consumed(uint32_t k) { return verif_stream_k(k)->rpos; }
uint8_t verif_stream_byte(uint32_t k, uint64_t i) { struct verif_stream *s = verif_stream_k(k); __CPROVER_assume(i < VS_CAP); return s->buf[i]; }
uint32_t verif_stream_failed(uint32_t k) { return verif_stream_k(k)->fail; }
void verif_stream_reset(uint32_t k) { struct verif_stream *s = verif_stream_k(k); s->wpos = 0; s->rpos = 0; s->fail = 0; }
void verif_stream_put(uint32_t k, uint8_t b) {
  struct verif_stream *s = verif_stream_k(k);
  __CPROVER_assert(s->wpos < VS_CAP, "VERIF model: stream capacity exceeded"); __CPROVER_assume(s->wpos < VS_CAP);
  s->buf[s->wpos++] = b;
}
uint8_t *_ZNSo5writeEPKcl(uint8_t *os, uint8_t *p, uint64_t n) {
  struct verif_stream *s = verif_stream_of(os);
  __CPROVER_assert(s->wpos + n <= VS_CAP, "VERIF model: stream capacity exceeded"); __CPROVER_assume(s->wpos + n <= VS_CAP);
  for (uint64_t i = 0; i < n; i++) s->buf[s->wpos + i] = p[i];
  s->wpos += n;
  return os;
}
uint8_t *_ZNSi4readEPcl(uint8_t *is, uint8_t *p, uint64_t n) {
  struct verif_stream *s = verif_stream_of(is);
  __CPROVER_assert(n <= VS_CAP, "VERIF model: read larger than stream capacity"); __CPROVER_assume(n <= VS_CAP);
  for (uint64_t i = 0; i < n; i++) { if (s->rpos < s->wpos) p[i] = s->buf[s->rpos++]; else { s->fail = 1; break; } }
  return is;
}
uint64_t verif_tellg(uint8_t *is) { struct verif_stream *s = verif_stream_of(is); return s->fail ? ~0ull : s->rpos; }
uint8_t *_ZNSi5seekgESt4fposI11__mbstate_tE(uint8_t *is, uint64_t off, uint64_t st) {
  struct verif_stream *s = verif_stream_of(is); if (off <= s->wpos) s->rpos = off; else s->fail = 1; return is; }
uint8_t *_ZNSi5seekgElSt12_Ios_Seekdir(uint8_t *is, uint64_t off, uint32_t dir) {
  struct verif_stream *s = verif_stream_of(is);
  uint64_t base = dir == 0 ? 0 : dir == 1 ? s->rpos : s->wpos;     /* beg, cur, end */
  uint64_t np = base + off;
  if (np <= s->wpos) s->rpos = np; else s->fail = 1;
  return is; }
uint8_t _ZNKSt9basic_iosIcSt11char_traitsIcEE4goodEv(uint8_t *ios) { return !verif_stream_of(ios)->fail; }
uint8_t _ZNKSt9basic_iosIcSt11char_traitsIcEE3eofEv(uint8_t *ios) { struct verif_stream *s = verif_stream_of(ios); return s->fail; }
uint8_t _ZNKSt9basic_iosIcSt11char_traitsIcEE4failEv(uint8_t *ios) { return verif_stream_of(ios)->fail; }
uint8_t _ZNKSt9basic_iosIcSt11char_traitsIcEEntEv(uint8_t *ios) { return verif_stream_of(ios)->fail; }

/* ---- zero-filled std::cerr / std::cout / std::clog objects (never inspected: logging is stubbed) */

#ifndef __CPROVER__
/* self-test PRNG: xorshift, biased towards small values so that validity predicates are met often */
static uint64_t verif_prng_state = 88172645463325252ull;
void verif_prng_seed(uint64_t s) { verif_prng_state = s * 2654435761u + 88172645463325252ull; if (!verif_prng_state) verif_prng_state = 1; }
uint64_t verif_prng_next(int bits) {
  uint64_t x = verif_prng_state; x ^= x << 13; x ^= x >> 7; x ^= x << 17; verif_prng_state = x;
  uint64_t v = x >> 8; unsigned sel = x & 7;
  if (sel < 3) v &= 7; else if (sel < 5) v &= 0xff;
  if (bits < 64) v &= ((1ull << bits) - 1);
  return v;
}
void VERIF_ENTRY(void);
int main(int argc, char **argv) { verif_prng_seed(argc > 1 ? strtoull(argv[1], 0, 10) : 1); VERIF_ENTRY(); return 0; }
#endif
